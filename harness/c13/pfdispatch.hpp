// pfdispatch.hpp — run-time argument list -> typed C variadic call.  Include in exactly one
// translation unit per harness (it defines pf::run_impl / pf::run_ref).
#pragma once
#include "pfcall.hpp"
#include <dlfcn.h>

namespace pf
{
    // ---- the variadic entries
    inline int call_printf(Cap *cap, const char *fmt, ...)
    {
        va_list ap;
        va_start(ap, fmt);
        int r = __printf(cap_cb, cap, fmt, ap);
        va_end(ap);
        return r;
    }
    // The reference is glibc's vsnprintf itself, not the sanitizer's interceptor in front of
    // it: the interceptor runs strlen() over every %s argument (precision or not) and would
    // fault on the unterminated strings that sit against a guard page.
    typedef int (*vsnprintf_fn)(char *, size_t, const char *, va_list);
    inline vsnprintf_fn libc_vsnprintf()
    {
        static vsnprintf_fn f = (vsnprintf_fn)dlsym(RTLD_NEXT, "vsnprintf");
        if (!f)
            mc::harness_error("pfcall: libc vsnprintf not found");
        return f;
    }
    inline int call_ref(char *buf, size_t n, const char *fmt, ...)
    {
        va_list ap;
        va_start(ap, fmt);
        int r = libc_vsnprintf()(buf, n, fmt, ap);
        va_end(ap);
        return r;
    }

    // ---- run-time argument list -> typed variadic call
    // F must provide  template<class... A> int operator()(A... a)
    template <int N> struct Disp
    {
        template <class F, class... A> static int go(F &f, const Arg *a, int n, A... acc)
        {
            if (n == 0)
                return f(acc...);
            if constexpr (N == 0)
            {
                mc::harness_error("pfcall: more arguments than the dispatcher depth");
            }
            else
            {
                switch (a->k)
                {
                case Arg::I:
                    return Disp<N - 1>::go(f, a + 1, n - 1, acc..., a->i);
                case Arg::L:
                    return Disp<N - 1>::go(f, a + 1, n - 1, acc..., a->l);
                case Arg::P:
                    return Disp<N - 1>::go(f, a + 1, n - 1, acc..., a->p);
#ifdef PF_WITH_DOUBLE
                case Arg::D:
                    return Disp<N - 1>::go(f, a + 1, n - 1, acc..., a->d);
#endif
                default:
                    break;
                }
                mc::harness_error("pfcall: argument kind not compiled in");
            }
        }
    };
    template <class F> int dispatch(F &f, const Args &a)
    {
        if ((int)a.size() > PF_MAXARGS)
            mc::harness_error("pfcall: %zu arguments > PF_MAXARGS", a.size());
        return Disp<PF_MAXARGS>::go(f, a.data(), (int)a.size());
    }

    struct ImplCall
    {
        Cap *cap;
        const char *fmt;
        template <class... A> int operator()(A... a) { return call_printf(cap, fmt, a...); }
    };
    struct RefCall
    {
        char *buf;
        size_t n;
        const char *fmt;
        template <class... A> int operator()(A... a) { return call_ref(buf, n, fmt, a...); }
    };

    Out run_impl(const std::string &fmt, const Args &a)
    {
        static Cap cap;
        cap.n = 0;
        ImplCall c{&cap, fmt.c_str()};
        Out o;
        o.ret = dispatch(c, a);
        o.emitted = cap.n;
        o.text.assign((const char *)cap.buf, cap.n < CAPN ? cap.n : CAPN);
        return o;
    }
    Out run_ref(const std::string &fmt, const Args &a)
    {
        static char buf[CAPN + 1];
        RefCall c{buf, sizeof buf, fmt.c_str()};
        Out o;
        o.ret = dispatch(c, a);
        size_t n = o.ret < 0 ? 0 : (size_t)o.ret;
        o.emitted = n;
        o.text.assign(buf, n < CAPN ? n : CAPN);
        return o;
    }

}
