// C13 — printf engine: %f %e %g (and F E G) are memory-safe, terminate, return the number of
// characters they emitted, and for finite arguments print a text of the ISO C shape whose value
// lies within half a unit of the last printed digit (+ 8 ulp of the argument) of the argument.
// Shape I: (double, conversion, precision, flags, width) is enumerated over a deterministic,
// boundary-heavy set of doubles; every case calls the real __printf (ASan build: print_f's digit
// buffer is a stack array) through an ordinary variadic call. The text is checked by a strict
// parser of the ISO grammar for the directive and parsed back with strtold; glibc's output is
// only counted for information, never demanded.
#include "pfcall.hpp"
#include <algorithm>
#include <cfloat>
#include <climits>
#include <cmath>
#include <cstdlib>
#include <map>

using namespace pf;
using std::string;
using std::vector;

enum
{
    F_LEFT = 1,
    F_PLUS = 2,
    F_SPACE = 4,
    F_ALT = 8,
    F_ZERO = 16
};
static const char FLAGCH[5] = {'-', '+', ' ', '#', '0'};

struct Spec
{
    unsigned flags = 0;
    int wkind = 0, w = 0; // 0 none, 1 literal, 2 '*'
    int pkind = 0, p = 0; // 0 none, 1 "." alone, 2 literal, 3 ".*"
    const char *len = "";
    char conv = 'f';
};
static string render(const Spec &d, Args &a)
{
    string s = "%";
    for (int i = 0; i < 5; i++)
        if (d.flags & (1u << i))
            s += FLAGCH[i];
    if (d.wkind == 1)
        s += std::to_string(d.w);
    else if (d.wkind == 2)
    {
        s += '*';
        a.push_back(Arg::mkI(d.w));
    }
    if (d.pkind == 1)
        s += '.';
    else if (d.pkind == 2)
        s += "." + std::to_string(d.p);
    else if (d.pkind == 3)
    {
        s += ".*";
        a.push_back(Arg::mkI(d.p));
    }
    s += d.len;
    s += d.conv;
    return s;
}

// ------------------------------------------------------------------ the doubles
static double from_bits(uint64_t b)
{
    double d;
    memcpy(&d, &b, 8);
    return d;
}
static uint64_t to_bits(double d)
{
    uint64_t b;
    memcpy(&b, &d, 8);
    return b;
}
static vector<double> build_values()
{
    vector<double> v;
    std::map<uint64_t, bool> seen;
    auto add = [&](double d) {
        uint64_t b = to_bits(d);
        if (!seen[b])
        {
            seen[b] = true;
            v.push_back(d);
        }
    };
    auto add3 = [&](double d) {
        add(d);
        add(nextafter(d, INFINITY));
        add(nextafter(d, -INFINITY));
    };
    auto dec = [&](const char *s) { return strtod(s, nullptr); };
    // classes of the IEEE format
    add(0.0);
    add(-0.0);
    add(INFINITY);
    add(-INFINITY);
    add(NAN);
    add(-NAN);
    add(from_bits(1)); // smallest denormal
    add(from_bits(2));
    add(-from_bits(1));
    add(from_bits(0x000FFFFFFFFFFFFFull)); // largest denormal
    add(from_bits(0x0008000000000000ull));
    add3(DBL_MIN);
    add(DBL_MAX);
    add(-DBL_MAX);
    add(nextafter(DBL_MAX, 0));
    add(DBL_EPSILON);
    // powers of ten and two, each +-1 ulp
    for (int k = -30; k <= 30; k++)
    {
        add3(dec(mc::fmt("1e%d", k).c_str()));
        add3(ldexp(1.0, k));
        add(-dec(mc::fmt("1e%d", k).c_str()));
    }
    for (int i = 1; i <= 9; i++)
        add(i / 10.0);
    // ties at the rounding digit: odd multiples of 2^-(p+1) are exact decimal ties at precision p
    for (int p = 0; p <= 17; p++)
    {
        double h = ldexp(1.0, -(p + 1));
        add(h);
        add(3 * h);
        add(1 + h);
        add(-(2 + h));
        add(dec(mc::fmt("5e-%d", p + 1).c_str())); // nearest double to the decimal tie
        add(dec(mc::fmt("1.5e-%d", p).c_str()));
    }
    // carries into the next digit / the integer part / the next decade
    for (int n = 0; n <= 17; n++)
    {
        string nines(n, '9');
        add(dec(("9." + nines + "5").c_str()));
        add(dec(("0." + nines + "95").c_str()));
        add(dec(("99." + nines + "6").c_str()));
        add(-dec(("9." + nines + "9").c_str()));
    }
    for (const char *s : {"9.5",       "99.5",         "999.5",       "9999.5",     "99999.5",     "999999.5",     "9999999.5",
                          "0.5",       "1.5",          "2.5",         "0.05",       "0.005",       "0.0005",       "0.00005",
                          "123456789", "123456.789",   "1234.5678",   "42.25",      "3.141592653589793", "2.718281828459045",
                          "1e-4",      "9.9999e-5",    "0.00012345",  "0.0001",     "0.00009999995", "99999.95",   "999999.4",
                          "1000000",   "100000",       "1e15",        "1e16",       "1e17",        "1e18",         "1e19",
                          "1e20",      "1e21",         "1e22",        "1e23",       "1e62",        "1e63",         "1e64",
                          "1e65",      "9.99e63",      "1e100",       "1e200",      "1e300",       "1e308",        "1.7976931348623157e308",
                          "1e-100",    "1e-300",       "1e-307",      "1e-308",     "1e-310",      "1e-320",       "4.9e-324",
                          "18446744073709551615", "18446744073709551616", "9223372036854775807", "4294967296", "2147483648"})
    {
        add3(dec(s));
        add(-dec(s));
    }
    // digit-rich values (17 significant non-zero digits) in every decade where %g uses style f and around it:
    // there the number of fraction digits the engine must produce is P-1-X, i.e. up to precision+3
    for (int k = -7; k <= 18; k++)
        for (const char *m : {"1.2345678912345678", "4.5678912345678913", "9.8765432198765432", "2.7182818284590452"})
        {
            double v = dec((string(m) + "e" + std::to_string(k)).c_str());
            add(v);
            add(-v);
        }
    // and every binary exponent of that region (2^-24 .. 2^64) with two dense mantissas, in both tiers
    for (int e = 1023 - 24; e <= 1023 + 64; e++)
    {
        add(from_bits(((uint64_t)e << 52) | 0x243F6A8885A30ull));
        add(from_bits(((uint64_t)e << 52) | 0x5555555555555ull));
    }
    // exponent sweep: deterministic "boundary-biased bit patterns"
    static const uint64_t MANT_Q[3] = {0, 0xFFFFFFFFFFFFFull, 0x243F6A8885A30ull};
    static const uint64_t MANT_T[10] = {0,
                                        1,
                                        0x8000000000000ull,
                                        0xFFFFFFFFFFFFFull,
                                        0x5555555555555ull,
                                        0x7FFFFFFFFFFFFull,
                                        0x999999999999Aull,
                                        0x3333333333333ull,
                                        0xC000000000001ull,
                                        0x243F6A8885A30ull};
    int step = mc::thorough() ? 1 : 8;
    for (int e = 0; e <= 2046; e += step)
    {
        const uint64_t *M = mc::thorough() ? MANT_T : MANT_Q;
        int nm = mc::thorough() ? 10 : 3;
        for (int m = 0; m < nm; m++)
        {
            uint64_t b = ((uint64_t)e << 52) | M[m];
            if (b == 0)
                continue;
            add(from_bits(b));
            if (m == nm - 1)
                add(-from_bits(b));
        }
    }
    return v;
}
static vector<double> &values()
{
    static vector<double> v = build_values();
    return v;
}
static const char *dclass(double x)
{
    if (std::isnan(x))
        return "nan";
    if (std::isinf(x))
        return "inf";
    double a = fabs(x);
    if (a == 0)
        return "zero";
    if (a < DBL_MIN)
        return "subnormal";
    if (a < 1e-200)
        return "minuscule";
    if (a < 1e-4)
        return "tiny";
    if (a < 1)
        return "lt1";
    if (a < 1e15)
        return "mid";
    if (a < 1e63)
        return "large";
    return "huge";
}
static char lowc(char c) { return (char)tolower((unsigned char)c); }

// ------------------------------------------------------------------ the oracle for one call
struct Verdict
{
    bool rounded = false; // the printed value differs from the argument (digits were dropped)
    bool padded = false;
    string shape; // outcome class
};

static string collapse(const string &t)
{
    string r;
    for (unsigned char c : t)
    {
        char k = c == ' ' ? '_' : (c >= '0' && c <= '9') ? 'd' : (char)c;
        if (r.empty() || r.back() != k)
            r += k;
    }
    return r.size() > 24 ? r.substr(0, 24) : r;
}

static void check_call(const Spec &d, double x, Verdict &vd, bool safety_only = false /* = without the accuracy clause */)
{
    Args a;
    string f = render(d, a);
    a.push_back(Arg::mkD(x));
    const char cv = lowc(d.conv);
    const string cls = dclass(x);
    const string tail = string(1, cv) + "." + cls;
    bool left = (d.flags & F_LEFT) || (d.wkind == 2 && d.w < 0);
    string fcls = left && (d.flags & F_ZERO) ? "left+zero" : left ? "left" : (d.flags & F_ZERO) ? "zero" : "plain";

    mc::crash_context("C13.print_f.crash.%s%s", tail.c_str(), (left && (d.flags & F_ZERO) && d.wkind) ? ".left+zero" : "");
    Out got = run_impl(f, a);
    mc::crash_context("C13.harness");

    string ctx = mc::fmt("format %s args [%s] (%.17g)", vis(f).c_str(), show_args(a).c_str(), x);
    if (got.ret < 0 || (size_t)got.ret != got.emitted)
        mc::violation("C13.print_f.count." + tail + "." + fcls, "%s: returned %d but handed %zu characters to the callback", ctx.c_str(), got.ret,
                      got.emitted);
    if (got.emitted > CAPN)
    {
        mc::violation("C13.print_f.runaway." + tail, "%s: %zu characters emitted", ctx.c_str(), got.emitted);
        return;
    }
    vd.shape = string(1, cv) + ":" + collapse(got.text);
    if (!std::isfinite(x))
        return; // shape and accuracy are stated for finite arguments only
    {
        Out ref = run_ref(f, a);
        if (ref.text == got.text)
            mc::count("identical_to_glibc");
        else
            mc::count("differs_from_glibc_within_the_statement_or_reported");
    }

    // ---- padding, sign
    const string &t = got.text;
    size_t W = d.wkind == 0 ? 0 : (size_t)(d.w < 0 ? -(long)d.w : d.w);
    bool zero = (d.flags & F_ZERO) && !left;
    char sg = std::signbit(x) ? '-' : (d.flags & F_PLUS) ? '+' : (d.flags & F_SPACE) ? ' ' : 0;
    size_t b = 0, e = t.size(), pads = 0;
    if (left)
        while (e > b && t[e - 1] == ' ')
            e--, pads++;
    else if (!zero)
    {
        while (b < e && t[b] == ' ')
            b++, pads++;
        if (sg == ' ' && pads)
            b--, pads--;
    }
    bool sign_ok = true;
    if (sg)
    {
        if (b < e && t[b] == sg)
            b++;
        else
            sign_ok = false;
    }
    else if (b < e && (t[b] == '-' || t[b] == '+' || t[b] == ' '))
        sign_ok = false;
    if (!sign_ok)
    {
        mc::violation("C13.print_f.sign." + tail, "%s: emitted %s, expected the sign position to hold %s", ctx.c_str(), vis(t).c_str(),
                      sg ? string(1, sg).c_str() : "a digit");
        return;
    }
    if (zero)
        while (b + 1 < e && t[b] == '0' && isdigit((unsigned char)t[b + 1]))
            b++, pads++;
    string tok = t.substr(b, e - b);
    size_t natural = (sg ? 1 : 0) + tok.size();
    size_t wantlen = natural > W ? natural : W;
    if (t.size() != wantlen)
    {
        mc::violation("C13.print_f.padding." + tail + "." + fcls,
                      "%s: emitted %s (%zu characters); sign+number take %zu, the field is %zu wide (%s), so %zu are due", ctx.c_str(),
                      vis(t).c_str(), t.size(), natural, W, fcls.c_str(), wantlen);
        return;
    }
    vd.padded = pads > 0;

    // ---- the number itself
    size_t i = 0, n = tok.size();
    string ip, fr, ex;
    bool dot = false;
    char echar = 0, esign = 0;
    while (i < n && isdigit((unsigned char)tok[i]))
        ip += tok[i++];
    if (i < n && tok[i] == '.')
    {
        dot = true;
        i++;
        while (i < n && isdigit((unsigned char)tok[i]))
            fr += tok[i++];
    }
    if (i < n && (tok[i] == 'e' || tok[i] == 'E'))
    {
        echar = tok[i++];
        if (i < n && (tok[i] == '+' || tok[i] == '-'))
            esign = tok[i++];
        while (i < n && isdigit((unsigned char)tok[i]))
            ex += tok[i++];
    }
    bool has_prec = d.pkind == 1 || d.pkind == 2 || (d.pkind == 3 && d.p >= 0);
    int P = has_prec ? ((d.pkind == 1) ? 0 : d.p) : 6;
    bool alt = d.flags & F_ALT;
    bool upper = d.conv >= 'A' && d.conv <= 'Z';
    string why, tag;
    auto bad = [&](const char *tg, const string &w) {
        if (why.empty())
        {
            why = w;
            tag = tg;
        }
    };
    if (i != n || ip.empty())
        bad("form", "not of the form digits[.digits][e+-digits]");
    if (ip.size() > 1 && ip[0] == '0')
        bad("form", "superfluous leading zero");
    auto exp_ok = [&]() {
        if (!echar)
            return bad("exponent", "no exponent part");
        if (echar != (upper ? 'E' : 'e'))
            bad("exponent", "exponent letter of the wrong case");
        if (!esign)
            bad("exponent", "exponent without a sign");
        if (ex.size() < 2)
            bad("exponent", "exponent with fewer than two digits");
        if (ex.size() > 2 && ex[0] == '0')
            bad("exponent", "exponent with more digits than necessary");
        if (ip.size() != 1)
            bad("mantissa", "not exactly one digit before the decimal point");
        if (x != 0 && ip == "0")
            bad("mantissa", "mantissa of a nonzero value starts with 0");
        if (x == 0 && (atoi(ex.c_str()) != 0 || esign != '+'))
            bad("exponent", "zero must have exponent +00");
    };
    // The decimal exponent X that ISO's rules refer to is a property of the ARGUMENT: the exponent of
    // the value correctly rounded to the number of significant digits the directive keeps (P+1 for e,
    // P for g). glibc's "%.*e" of the same value supplies it; where the argument is within 8 ulp (the
    // slack of the accuracy clause; this includes exact ties) of a rounding boundary that changes X,
    // the exponents on both sides are accepted.
    int nsig = cv == 'e' ? P + 1 : (has_prec ? (P == 0 ? 1 : P) : 6);
    std::vector<int> XA; // accepted exponents, ascending
    if (cv != 'f')
    {
        auto ref_exp = [&](double v) {
            if (v == 0)
                return 0;
            char b[512];
            snprintf(b, sizeof b, "%.*e", nsig - 1, fabs(v));
            const char *epos = strchr(b, 'e');
            return epos ? atoi(epos + 1) : 0;
        };
        auto addX = [&](int v) {
            for (int k : XA)
                if (k == v)
                    return;
            XA.push_back(v);
        };
        addX(ref_exp(x));
        if (x != 0)
        {
            // the same 8 ulp of slack that the accuracy clause grants: a printed value that is within
            // "a few ulps" of an argument lying next to a power of ten may carry either exponent
            double lo = fabs(x), hi = fabs(x);
            for (int k = 0; k < 8; k++)
            {
                lo = nextafter(lo, 0.0);
                hi = nextafter(hi, INFINITY);
            }
            if (lo > 0)
                addX(ref_exp(lo));
            if (std::isfinite(hi))
                addX(ref_exp(hi));
        }
        std::sort(XA.begin(), XA.end());
    }
    auto xa_str = [&]() {
        string r;
        for (int k : XA)
            r += (r.empty() ? "" : " or ") + std::to_string(k);
        return r;
    };
    auto in_XA = [&](int v) { return std::find(XA.begin(), XA.end(), v) != XA.end(); };
    long double unit = 0;
    if (cv == 'f')
    {
        if (echar)
            bad("form", "exponent part in %f");
        if ((int)fr.size() != P)
            bad("digits", mc::fmt("%zu fraction digits, precision is %d", fr.size(), P));
        if (dot != (P > 0 || alt))
            bad("point", dot ? "decimal point without fraction digits and without #" : "decimal point missing");
        unit = powl(10.0L, -P);
    }
    else if (cv == 'e')
    {
        exp_ok();
        if ((int)fr.size() != P)
            bad("digits", mc::fmt("%zu fraction digits, precision is %d", fr.size(), P));
        if (dot != (P > 0 || alt))
            bad("point", dot ? "decimal point without fraction digits and without #" : "decimal point missing");
        int Xp = (esign == '-' ? -1 : 1) * atoi(ex.c_str());
        if (why.empty() && !in_XA(Xp))
            bad("exponent_value", mc::fmt("exponent %d printed, the argument rounded to %d significant digits has exponent %s", Xp, nsig,
                                          xa_str().c_str()));
        unit = powl(10.0L, XA.front() - P); // the last digit position ISO prescribes
    }
    else
    { // g: with X the exponent of the ARGUMENT rounded to Pg digits: style e (Pg-1 fraction digits) iff X < -4 or
      // X >= Pg, else style f with Pg-1-X fraction digits; trailing zeros removed unless #
        int Pg = nsig;
        if (echar)
        {
            exp_ok();
            int Xp = (esign == '-' ? -1 : 1) * atoi(ex.c_str());
            bool style_ok = false;
            for (int X : XA)
                style_ok |= (X < -4 || X >= Pg);
            if (!style_ok)
                bad("style", mc::fmt("exponent style used although the argument's exponent %s is in [-4, %d)", xa_str().c_str(), Pg));
            else if (why.empty() && !(in_XA(Xp) && (Xp < -4 || Xp >= Pg)))
                bad("exponent_value", mc::fmt("exponent %d printed, the argument rounded to %d significant digits has exponent %s", Xp, Pg,
                                              xa_str().c_str()));
            if (alt ? (int)fr.size() != Pg - 1 : (int)fr.size() > Pg - 1)
                bad("digits", mc::fmt("%zu fraction digits for %d significant digits", fr.size(), Pg));
        }
        else
        {
            bool style_ok = false, digits_ok = false;
            int allow = 0;
            for (int X : XA)
                if (X >= -4 && X < Pg)
                {
                    style_ok = true;
                    int want_fr = Pg - 1 - X;
                    allow = want_fr;
                    digits_ok |= alt ? (int)fr.size() == want_fr : (int)fr.size() <= want_fr;
                }
            if (!style_ok)
                bad("style", mc::fmt("fixed style used although the argument's exponent %s is outside [-4, %d)", xa_str().c_str(), Pg));
            else if (!digits_ok)
                bad("digits", mc::fmt("%zu fraction digits; %d significant digits at the argument's exponent %s %s %d", fr.size(), Pg,
                                      xa_str().c_str(), alt ? "need exactly" : "allow at most", allow));
        }
        // The same rule read on the PRINTED number (necessary whatever the argument was): a number printed in
        // fixed style has its own decimal exponent in [-4, Pg), and no more than Pg significant digits are shown
        // (exactly Pg with #).
        if (x != 0)
        {
            string digs = ip + fr;
            size_t first = digs.find_first_not_of('0');
            if (first != string::npos)
            {
                size_t nsigdig = digs.size() - first;
                if (!echar)
                {
                    int Xp = ip != "0" ? (int)ip.size() - 1 : -(int)(fr.find_first_not_of('0') + 1);
                    if (!(Xp >= -4 && Xp < Pg))
                        bad("style", mc::fmt("fixed style used for a printed number whose exponent %d is outside [-4, %d)", Xp, Pg));
                }
                if (alt ? (int)nsigdig != Pg : (int)nsigdig > Pg)
                    bad("digits", mc::fmt("%zu significant digits printed, the precision asks for %d", nsigdig, Pg));
            }
        }
        if (alt)
        {
            if (!dot)
                bad("point", "# given but no decimal point");
        }
        else
        {
            if (!fr.empty() && fr.back() == '0')
                bad("trailing_zeros", "trailing zeros not removed");
            if (dot && fr.empty())
                bad("point", "decimal point without fraction digits and without #");
        }
        unit = powl(10.0L, XA.front() - Pg + 1); // the last digit position ISO prescribes
    }
    if (!why.empty())
    {
        // precisions above 17 (more digits than a double carries) are a class of their own
        mc::violation("C13.print_f.shape." + tail + "." + tag + (has_prec && P > 17 ? ".precision_above_17" : ""), "%s: emitted %s: %s",
                      ctx.c_str(), vis(t).c_str(),
                      why.c_str());
        return;
    }

    if (safety_only)
        return; // precision above 17: sign, padding, count and shape (number of digits, exponent form, %g style) are decided
                // as for any precision; the VALUE of digits beyond what a double carries is outside the accuracy clause
    // ---- accuracy: parsed back, within half a unit of the last digit position ISO prescribes for the ARGUMENT
    // (10^-P for f, 10^(X-P) for e, 10^(X-P+1) for g, X as above) + 8 ulp of the argument
    long double y = strtold(((sg == '-' ? "-" : "") + tok).c_str(), nullptr);
    long double ax = fabsl((long double)x);
    long double ulp = (long double)(nextafter(fabs(x), INFINITY)) - ax;
    if (!std::isfinite((double)ulp) || fabs(x) == DBL_MAX)
        ulp = ax - (long double)nextafter(fabs(x), 0.0);
    long double err = fabsl(y - (long double)x);
    long double tol = 0.5L * unit * (1.0L + 1e-12L) + 8.0L * ulp;
    if (cv != 'g')
    {
        long double excess = (err - 0.5L * unit) / ulp; // ulps beyond the half unit
        mc::count(excess <= 0 ? "within_half_unit" : excess <= 1 ? "excess_le_1ulp" : excess <= 2 ? "excess_le_2ulp" : excess <= 4 ? "excess_le_4ulp" : excess <= 8 ? "excess_le_8ulp" : excess <= 16 ? "excess_le_16ulp" : excess <= 32 ? "excess_le_32ulp" : "excess_gt_32ulp");
    }
    if (!(err <= tol))
        mc::violation("C13.print_f.accuracy." + tail,
                      "%s: emitted %s, which is off by %.4Lg units of the last digit position the directive prescribes / %.4Lg ulp of the argument (allowed: 0.5 unit + 8 ulp)",
                      ctx.c_str(), vis(t).c_str(), err / unit, err / ulp);
    vd.rounded = (y != (long double)x);
}

// ------------------------------------------------------------------ (1) every double x conversion x precision
static const char CONV[6] = {'f', 'F', 'e', 'E', 'g', 'G'};
static void values_body()
{
    vector<double> &V = values();
    int vi = mc::choose((int)V.size());
    int ci = mc::choose(6);
    int pi = mc::choose(1 + 18 + 18); // none, literal .0 .. .17, .* with 0..17
    int alt = mc::choose(2);
    Spec d;
    d.conv = CONV[ci];
    d.flags = alt ? F_ALT : 0;
    if (pi >= 1 && pi <= 18)
    {
        d.pkind = 2;
        d.p = pi - 1;
    }
    else if (pi > 18)
    {
        d.pkind = 3;
        d.p = pi - 19;
    }
    double x = V[vi];
    Args tmp;
    mc::describe("format %s precision arg %d value %.17g (%a, class %s)", vis(render(d, tmp)).c_str(), d.p, x, x, dclass(x));
    Verdict vd;
    check_call(d, x, vd);
    if (vd.rounded || !std::isfinite(x))
        mc::nontrivial();
    mc::outcome(vd.shape);
}

// ------------------------------------------------------------------ (2) flags x width x precision on a reduced set of doubles
static void flags_body()
{
    static const double D[] = {0.0,       -0.0,     1.0,      -1.0,          0.5,      -2.5,    9.995,  -9.9996,     1e-5,  0.000123456,
                               123456.789, -1e10,   1e15,     1e16,          1e100,    -1e100,  DBL_MAX, -DBL_MAX,   DBL_MIN, 4.9e-324,
                               999999.5,  0.1,      -0.75,    1e63,          1e64,     INFINITY, -INFINITY, NAN,     3.0,   -1234567.0};
    static const struct
    {
        int k, v;
    } W[] = {{0, 0}, {1, 1}, {1, 12}, {1, 30}, {2, 12}, {2, -12}, {2, 0}},
      P[] = {{0, 0}, {1, 0}, {2, 0}, {2, 1}, {2, 6}, {3, 17}, {3, -1}, {3, 3}};
    const int ND = sizeof D / sizeof D[0], NW = sizeof W / sizeof W[0], NP = sizeof P / sizeof P[0];
    int unit = mc::choose(ND * 6);
    int fl = mc::choose(32);
    int wi = mc::choose(NW);
    int pi = mc::choose(NP);
    int lm = mc::choose(2);
    Spec d;
    d.conv = CONV[unit % 6];
    d.flags = (unsigned)fl;
    d.wkind = W[wi].k;
    d.w = W[wi].v;
    d.pkind = P[pi].k;
    d.p = P[pi].v;
    d.len = lm ? "l" : ""; // ISO: l has no effect on a following f e g conversion
    double x = D[unit / 6];
    Args tmp;
    mc::describe("format %s width arg %d precision arg %d value %.17g (class %s)", vis(render(d, tmp)).c_str(), d.w, d.p, x, dclass(x));
    Verdict vd;
    check_call(d, x, vd);
    if (vd.padded || !std::isfinite(x))
        mc::nontrivial();
    mc::outcome(vd.shape);
}

// ------------------------------------------------------------------ (3) precisions beyond the 17 of the accuracy claim
// The statement's safety clauses (terminates, stays inside its buffers, returns what it emitted) and the shape
// clause (sign, padding, exactly `precision` fraction digits for f / e / #g, exponent form, %g style) hold for any
// precision; accuracy is decided for the quantifier's precisions 0..17 only (the engine completes a long precision
// with zeros, so the values of digits beyond its internal limit stay unchecked).
static void long_precisions_body()
{
    static const double D[] = {0.0,     1.0,     -0.1,     0.3,   1.0 / 3, 2.5,     123456.789, 1e-5,    1e-30,    1e-45,   1e-100,
                               1e-300,  4.9e-324, DBL_MIN, 1e15,  1e22,    1e63,    1e64,       1e100,   -1e300,   DBL_MAX, 9.999999999999999e22,
                               INFINITY, NAN};
    static const int PR[] = {18, 20, 39, 40, 41, 63, 64, 65, 66, 100, 300, 330, 400};
    const int ND = sizeof D / sizeof D[0], NP = sizeof PR / sizeof PR[0];
    int unit = mc::choose(ND * 6);
    int pi = mc::choose(NP);
    int star = mc::choose(2);
    int fl = mc::choose(4); // none, #, -, 0 with a width wider than the number
    Spec d;
    d.conv = CONV[unit % 6];
    d.pkind = star ? 3 : 2;
    d.p = PR[pi];
    d.flags = fl == 1 ? F_ALT : fl == 2 ? F_LEFT : fl == 3 ? F_ZERO : 0;
    if (fl >= 2)
    {
        d.wkind = 1;
        d.w = 780;
    }
    double x = D[unit / 6];
    Args tmp;
    mc::describe("format %s precision arg %d value %.17g (class %s)", vis(render(d, tmp)).c_str(), d.p, x, dclass(x));
    Verdict vd;
    check_call(d, x, vd, true);
    mc::nontrivial(); // every precision here exceeds the 17 significant digits of a double
    mc::outcome(vd.shape);
}

// ------------------------------------------------------------------ (4) field widths around and beyond 2^8
// A pad counter narrowed to 8 bits is invisible with the widths <= 30 of flags_x_widths.
static void wide_fields_body()
{
    static const double D[] = {0.0, 1.5, -2.5e10, 0.000123456, 1e300, -DBL_MAX, 9.9995, INFINITY, NAN};
    static const int WV[] = {255, 256, 257, 300, 1000};
    static const unsigned FL[] = {0, F_LEFT, F_ZERO, F_PLUS, F_SPACE | F_ZERO, F_LEFT | F_ZERO, F_ALT};
    static const struct
    {
        int k, v;
    } P[] = {{0, 0}, {2, 0}, {2, 3}, {3, 17}, {2, 100}, {2, 400}};
    const int ND = sizeof D / sizeof D[0], NF = sizeof FL / sizeof FL[0], NP = sizeof P / sizeof P[0];
    int unit = mc::choose(ND * 6);
    int wi = mc::choose(5 * 3); // literal, * positive, * negative
    int fi = mc::choose(NF);
    int pi = mc::choose(NP);
    Spec d;
    d.conv = CONV[unit % 6];
    d.flags = FL[fi];
    d.wkind = wi / 5 == 0 ? 1 : 2;
    d.w = wi / 5 == 2 ? -WV[wi % 5] : WV[wi % 5];
    d.pkind = P[pi].k;
    d.p = P[pi].v;
    double x = D[unit / 6];
    Args tmp;
    mc::describe("format %s width arg %d precision arg %d value %.17g (class %s)", vis(render(d, tmp)).c_str(), d.w, d.p, x, dclass(x));
    Verdict vd;
    // precisions above 17: safety clauses and the return value only (see long_precisions)
    check_call(d, x, vd, d.p > 17);
    mc::nontrivial(); // every field is at least 255 wide
    mc::outcome(vd.shape);
}

// ------------------------------------------------------------------ (5) re-entrant output callback
// A callback that itself formats a number through the engine while a floating conversion is being
// emitted must not disturb the outer call (digits kept in static scratch memory would be overwritten).
static void reentrant_callback_body()
{
    static const double D[] = {0.0,  -1.0,        0.5,   9.995, 123456.789, -1e10,   1e-5,  0.000123456, 1e15, 1e100, -DBL_MAX, DBL_MIN,
                               4.9e-324, 999999.5, 3.141592653589793, -2.718281828459045e-7, INFINITY, NAN};
    static const struct
    {
        int k, v;
    } P[] = {{0, 0}, {2, 0}, {2, 3}, {3, 17}};
    static const int PERIOD[3] = {1, 3, 7};
    const int ND = sizeof D / sizeof D[0];
    int unit = mc::choose(ND * 6);
    int pi = mc::choose(4), wi = mc::choose(2), per = mc::choose(3), kind = mc::choose(NEST_KINDS);
    Spec d;
    d.conv = CONV[unit % 6];
    d.pkind = P[pi].k;
    d.p = P[pi].v;
    if (wi)
    {
        d.wkind = 1;
        d.w = 24;
        d.flags = F_ZERO;
    }
    double x = D[unit / 6];
    Args a;
    string f = "<" + render(d, a) + ">";
    a.push_back(Arg::mkD(x));
    mc::describe("format %s precision arg %d value %.17g; after every %d%s output character the callback runs nested format #%d through the engine",
                 vis(f).c_str(), d.p, x, PERIOD[per], PERIOD[per] == 1 ? "" : "th", kind);
    string tail = string(1, lowc(d.conv));
    mc::crash_context("C13.reentrant_callback.crash.%s", tail.c_str());
    Out plain = run_impl(f, a);
    size_t calls = 0;
    string bad;
    Out got = run_impl_nested(f, a, PERIOD[per], kind, &calls, &bad);
    mc::crash_context("C13.harness");
    if (got.text != plain.text || got.ret != plain.ret || got.emitted != plain.emitted)
        mc::violation("C13.reentrant_callback.outer_text." + tail,
                      "format %s of %.17g: with a callback that formats through the engine (%zu nested calls) the outer call emitted %s and returned "
                      "%d; undisturbed it emits %s and returns %d",
                      vis(f).c_str(), x, calls, vis(got.text).c_str(), got.ret, vis(plain.text).c_str(), plain.ret);
    if (!bad.empty())
        mc::violation("C13.reentrant_callback.nested_text." + tail, "format %s of %.17g: %s", vis(f).c_str(), x, bad.c_str());
    if (calls >= 2)
        mc::nontrivial();
    mc::outcome(mc::fmt("%c: %zu nested calls", lowc(d.conv), calls));
}

// ------------------------------------------------------------------ (6) the process's first conversion is a different one
// The text of a conversion is a function of its directive and argument, not of what the engine was asked
// before: each case runs in a fresh worker (no conversion has happened in the process), performs one
// PRECEDING conversion (hexadecimal %a/%A, a huge %f, a tiny %e, an integer) and then the checked
// %f/%e/%g conversions with the full oracle.  State cached from the first call (a static power of the
// base, a lazily built table) shows as a wrong second result.
static void first_conversion_body()
{
    static const double D[] = {0.0, 1.0, -0.75, 9.9995, 123456.789, 1e-7, 6.02214076e23, -1e100, 1e300, 2.2250738585072014e-308, 4.9e-324, 255.0};
    static const char *FIRST[] = {"%a", "%A", "%.3a", "%f", "%e", "%g", "%d"};
    const int ND = sizeof D / sizeof D[0], NF = sizeof FIRST / sizeof FIRST[0];
    int unit = mc::choose(ND * NF);
    mc::request_restart(); // the next case gets a worker in which the engine has not run yet
    int fi = unit % NF;
    double x = D[unit / NF];
    mc::describe("first conversion of the process: %s; then f F e E g G (default precision and .17) of %.17g", FIRST[fi], x);
    {
        Args a;
        if (fi == 6)
            a.push_back(Arg::mkI(42));
        else
            a.push_back(Arg::mkD(fi == 3 ? 1e300 : fi == 4 ? 1e-300 : fi == 5 ? 0.5 : 1234.5678));
        mc::crash_context("C13.first_conversion.crash");
        Out o = run_impl(FIRST[fi], a);
        if (o.ret < 0 || (size_t)o.ret != o.emitted)
            mc::violation("C13.first_conversion.count", "%s: returned %d, emitted %zu", FIRST[fi], o.ret, o.emitted);
    }
    for (int ci = 0; ci < 6; ci++)
        for (int pk = 0; pk < 2; pk++)
        {
            Spec d;
            d.conv = CONV[ci];
            if (pk)
            {
                d.pkind = 2;
                d.p = 17;
            }
            Verdict vd;
            check_call(d, x, vd);
            mc::outcome(vd.shape);
        }
    mc::more_cases(11, 11);
    mc::nontrivial();
}

MC_INIT
{
    mc::add_check("first_conversion", first_conversion_body);
    mc::add_check("reentrant_callback", reentrant_callback_body);
    mc::add_check("wide_fields", wide_fields_body);
    mc::add_check("long_precisions", long_precisions_body);
    mc::add_check("values_x_precisions", values_body);
    mc::add_check("flags_x_widths", flags_body);
}
MC_MAIN
