#!/bin/bash
# C12: numconvert.c and the compat libc strtod.c of $REPO under ASan, linked with the harness.
# strtod.c is compiled against the host headers with the two-file shim directory; its public names get the prefix igc_.
set -e
. $MC/par.sh
H=$VERIF/harness/c12
CF="-O1 -g -fsanitize=address -fno-omit-frame-pointer -I$REPO -I$MC"
mkdir -p $BUILD/shim
echo "#include \"$REPO/compat/libc/include/ctype.h\"" > $BUILD/shim/ctype.h
printf '#include_next <errno.h>\n#include <igris/util/errno.h>\n' > $BUILD/shim/errno.h
LIBC="-O1 -g -fsanitize=address -fno-omit-frame-pointer -fno-builtin -D_GNU_SOURCE -D__weak_alias(a,b)= -isystem $BUILD/shim -I$REPO"
par clang -c $CF $REPO/igris/util/numconvert.c -o $BUILD/numconvert.o
par clang -c $LIBC $REPO/compat/libc/stdlib/strtod.c -o $BUILD/strtod.o
par clang -c $CF $REPO/igris/dprint/dprint_func_impl.c -o $BUILD/dprint.o
par clang++ -std=c++17 -c $CF $H/c12_float.cpp -o $BUILD/h.o
par clang++ -std=c++17 -O2 -c -I$MC $MC/mc.cpp -o $BUILD/mc.o
parwait
objcopy --redefine-sym strtod=igc_strtod --redefine-sym atof=igc_atof $BUILD/strtod.o
clang++ -fsanitize=address $BUILD/h.o $BUILD/numconvert.o $BUILD/strtod.o $BUILD/dprint.o $BUILD/mc.o -o $BUILD/c12
echo "float $BUILD/c12" > $BUILD/runs.txt
