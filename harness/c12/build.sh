#!/bin/bash
# C12: numconvert.c and the compat libc strtod.c of $REPO under ASan, linked with the harness.
# strtod.c is compiled against the host headers with the two-file shim directory; its public names get the prefix igc_.
set -e
. $MC/par.sh
H=$VERIF/harness/c12
CF="-O1 -g -fsanitize=address -fno-omit-frame-pointer -I$REPO -I$MC"
mkdir -p $BUILD/shim
echo "#include \"$REPO/compat/libc/include/ctype.h\"" > $BUILD/shim/ctype.h
printf '#include_next <errno.h>\n#include <igris/util/errno.h>\n' > $BUILD/shim/errno.h
LIBC="-O1 -g -fsanitize=address -fno-omit-frame-pointer -fno-builtin -D_GNU_SOURCE -D__weak_alias(a,b)= -isystem $BUILD/shim -I$REPO"
# two builds of everything that handles characters: plain char signed (host default) and -funsigned-char
for V in s u; do
  if [ $V = u ]; then X="-funsigned-char -DVARIANT_UCHAR"; else X=""; fi
  par clang -c $CF $X $REPO/igris/util/numconvert.c -o $BUILD/numconvert_$V.o
  par clang -c $LIBC $X $REPO/compat/libc/stdlib/strtod.c -o $BUILD/strtod_$V.o
  par clang -c $CF $X $REPO/igris/dprint/dprint_func_impl.c -o $BUILD/dprint_$V.o
  par clang++ -std=c++20 -c $CF $X $H/c12_float.cpp -o $BUILD/h_$V.o
done
par clang++ -std=c++20 -O2 -c -I$MC $MC/mc.cpp -o $BUILD/mc.o
parwait
for V in s u; do objcopy --redefine-sym strtod=igc_strtod --redefine-sym atof=igc_atof $BUILD/strtod_$V.o; done
par clang++ -fsanitize=address $BUILD/h_s.o $BUILD/numconvert_s.o $BUILD/strtod_s.o $BUILD/dprint_s.o $BUILD/mc.o -o $BUILD/c12
par clang++ -fsanitize=address $BUILD/h_u.o $BUILD/numconvert_u.o $BUILD/strtod_u.o $BUILD/dprint_u.o $BUILD/mc.o -o $BUILD/c12u
parwait
# the short variant run first: ./check splits the remaining deadline evenly over the runs that are left
echo "float_unsigned_char $BUILD/c12u" > $BUILD/runs.txt
echo "float $BUILD/c12" >> $BUILD/runs.txt
