// C12 — float <-> text conversion is accurate to the printed precision.
// Shape I: exhaustive enumeration of float/double bit-pattern families (thorough: all 2^32 binary32 patterns)
// x precision through igris_f32toa / igris_f64toa / igris_ftoa, and of all literals of a small decimal grammar
// x terminator through igris_atof32 / igris_atof64 / igris_strtod / libc-shim strtod / atof.
// Render oracle: shape by a hand-written scanner, value by integer digit accumulation and long double.
// Parse oracle: glibc strtod/strtof on the same string (value within 8 ulp, same end).
#include "mc.hpp"
#include <cmath>
#include <cstdlib>
#include <cstring>
#include <igris/binreader.h>
#include <igris/util/numconvert.h>
#include "ro_text.hpp"
#include <set>
#include <string>
#include <vector>

extern "C"
{
    // compat/libc/stdlib/strtod.c, public names renamed by build.sh
    double igc_strtod(const char *, char **);
    double igc_atof(const char *);
}
#include <igris/dprint.h>
// debug_putchar capture for debug_printdec_double_prec
static char g_cap[64];
static int g_capn = 0;
extern "C" void debug_putchar(char c)
{
    if (g_capn < (int)sizeof g_cap - 1)
        g_cap[g_capn] = c;
    g_capn++;
}
extern "C" void debug_write(const char *c, int n)
{
    for (int i = 0; i < n; i++)
        debug_putchar(c[i]);
}

// ---------------------------------------------------------------- helpers
static inline float f_of(uint32_t b)
{
    float f;
    memcpy(&f, &b, 4);
    return f;
}
static inline uint32_t bits_of(float f)
{
    uint32_t b;
    memcpy(&b, &f, 4);
    return b;
}
static inline double d_of(uint64_t b)
{
    double d;
    memcpy(&d, &b, 8);
    return d;
}
static inline uint64_t bits_of(double d)
{
    uint64_t b;
    memcpy(&b, &d, 8);
    return b;
}
// spacing of binary32 at magnitude ax (the quantum of the binade that holds ax; 2^-149 below the normal range)
static long double spacing32(long double ax)
{
    if (ax < 0x1p-126L)
        return 0x1p-149L;
    int e;
    frexpl(ax, &e); // ax = m * 2^e, m in [0.5,1)
    return ldexpl(1.0L, e - 1 - 23);
}
static long double g_p10[24];
static std::string vis(const char *s, size_t n)
{
    std::string o;
    for (size_t i = 0; i < n; i++)
    {
        unsigned char c = s[i];
        if (c >= 0x20 && c < 0x7f && c != '\\')
            o += (char)c;
        else
            o += mc::fmt("\\x%02x", c);
    }
    return o;
}

// exactly-sized heap blocks (one per size, reused): [p, p+n) ends at the ASan redzone
static char *g_pool[200];
static char *pool(size_t n)
{
    if (n >= sizeof g_pool / sizeof g_pool[0])
        mc::harness_error("pool(%zu)", n);
    if (!g_pool[n])
        g_pool[n] = (char *)malloc(n ? n : 1);
    return g_pool[n];
}
// every input text also exists in READ-ONLY memory, its NUL flush against an inaccessible page (ro_text.hpp)
static const char *g_ro = nullptr, *g_ro_of = nullptr;
static inline const char *ro_twin(const char *s) { return s == g_ro_of ? g_ro : s; }
static char *g_spool[200];
static const char *exact_copy(const char *s, size_t len)
{
    if (len + 1 >= sizeof g_spool / sizeof g_spool[0])
        mc::harness_error("exact_copy(%zu)", len);
    if (!g_spool[len + 1])
        g_spool[len + 1] = (char *)malloc(len + 1);
    memcpy(g_spool[len + 1], s, len);
    g_spool[len + 1][len] = 0;
    g_ro = ro_text::stage(g_spool[len + 1], len);
    if (!g_ro)
        mc::harness_error("ro_text::stage failed");
    g_ro_of = g_spool[len + 1];
    return g_spool[len + 1];
}

// ---------------------------------------------------------------- renderers under test
struct Rend
{
    const char *name;
    bool dbl;
    char *(*fn)(double x, char *buf, int prec); // float renderers get (float)x, which is exact for the float families
    double range;   // supported magnitude range: shape, digit count, value and sign are judged for |x| < range
    bool via_float; // the argument is (converted to) a float before it is rendered: classify doubles by (float)x
};
static const Rend RENDS[] = {
    {"igris_f32toa", false, [](double x, char *b, int p) { return igris_f32toa((float)x, b, (int8_t)p); }, 0x1p31, true},
    {"igris_f64toa", true, [](double x, char *b, int p) { return igris_f64toa(x, b, (int8_t)p); }, 0x1p31, true},
    {"igris_ftoa", true, [](double x, char *b, int p) { return igris_ftoa(x, b, (int8_t)p); }, 0x1p31, true},
    // the debug-print renderer, captured through debug_putchar and copied out (precision >= 0 only: it has no automatic mode)
    {"debug_printdec_double_prec", true,
     [](double x, char *b, int p) {
         g_capn = 0;
         debug_printdec_double_prec(x, p);
         int n = g_capn < (int)sizeof g_cap - 1 ? g_capn : (int)sizeof g_cap - 1;
         for (int i = 0; i < n; i++) // a NUL sent to the debug channel is a character like any other: keep it visible
             b[i] = g_cap[i] ? g_cap[i] : '\x01';
         b[n] = 0;
         return b;
     },
     0x1p64, false}, // the integer part is a uint64_t
    // its float entry point (a forwarder in the unchanged tree; also behind debug_printdec_float and dpr(float))
    {"debug_printdec_float_prec", false,
     [](double x, char *b, int p) {
         g_capn = 0;
         debug_printdec_float_prec((float)x, p);
         int n = g_capn < (int)sizeof g_cap - 1 ? g_capn : (int)sizeof g_cap - 1;
         for (int i = 0; i < n; i++) // a NUL sent to the debug channel is a character like any other: keep it visible
             b[i] = g_cap[i] ? g_cap[i] : '\x01';
         b[n] = 0;
         return b;
     },
     0x1p64, true},
};
static const int NREND = 5;
static const int R_DPRINT_DOUBLE = 3, R_DPRINT_FLOAT = 4;

enum Cls
{
    K_OK = 0,
    K_TOKEN,
    K_BAD
};
struct Tally
{
    uint64_t n = 0, in_range = 0, tokens = 0;
    uint64_t lens = 0;
    int maxfrac = 0;
    double worst = 0; // largest error seen, in units of the tolerance
    // violations in the classes beyond the supported range are reported once per case and signature (first witness + count),
    // not once per call: they are millions. Keyed by (renderer, kind, class) - pointers to literals.
    struct Deferred
    {
        const char *rname, *kind, *xcls;
        uint64_t count;
        std::string text;
    };
    std::vector<Deferred> deferred;
    // non-null for the first of its signature in this case (the caller then supplies the witness text)
    Deferred *defer(const char *rname, const char *kind, const char *xcls)
    {
        for (auto &d : deferred)
            if (d.rname == rname && d.kind == kind && d.xcls == xcls)
            {
                d.count++;
                return nullptr;
            }
        deferred.push_back({rname, kind, xcls, 1, ""});
        return &deferred.back();
    }
};

// The oracle for one produced text. x is the argument (exact), prec the requested precision.
// Returns false if a violation was reported.
static bool judge(const Rend &r, double x, int prec, const char *t, size_t len, Tally &ty)
{
    // input class of a signature: by the magnitude of the argument as binary32 (the double entry points document
    // delegation to the float renderer, so 2^31 - 1 as a double is the float 2^31)
    double xe = r.via_float ? (double)(float)x : x;
    bool wide = r.range > 0x1p31; // the debug printers: up to 2^64
    const char *xcls = std::isnan(x)          ? "nan"
                       : std::isinf(x)        ? "inf"
                       : std::isinf(xe)       ? "overflows_binary32"
                       : fabs(xe) >= r.range  ? (wide ? "abs_ge_2p64" : "abs_ge_2p31")
                                              : (wide ? "abs_lt_2p64" : "abs_lt_2p31");
    ty.n++;
    // tokens
    if (std::isnan(x))
    {
        ty.tokens++;
        const char *q = (*t == '-' || *t == '+') ? t + 1 : t;
        if (strcasecmp(q, "nan") != 0)
        {
            mc::violation(mc::fmt("C12.%s.token.nan", r.name), "%s(NaN, prec %d) wrote \"%s\"", r.name, prec, vis(t, len).c_str());
            return false;
        }
        return true;
    }
    if (std::isinf(x))
    {
        ty.tokens++;
        bool ok = (x > 0 && (!strcasecmp(t, "inf") || !strcasecmp(t, "+inf"))) || (x < 0 && !strcasecmp(t, "-inf"));
        if (!ok)
        {
            mc::violation(mc::fmt("C12.%s.token.inf", r.name), "%s(%sinf, prec %d) wrote \"%s\"", r.name, x < 0 ? "-" : "+", prec, vis(t, len).c_str());
            return false;
        }
        return true;
    }
    // finite: no non-numeric character for any input
    char c0 = (t[0] == '+' || t[0] == '-') ? t[1] : t[0];
    bool token = (c0 == 'i' || c0 == 'I' || c0 == 'n' || c0 == 'N') &&
                 (!strcasecmp(t, "inf") || !strcasecmp(t, "+inf") || !strcasecmp(t, "-inf") || !strcasecmp(t, "nan"));
    bool beyond = fabs(xe) >= r.range; // includes overflows_binary32
    if (token)
    {
        static const char *const K_TOKEN_KIND = "finite_rendered_as_token";
        if (Tally::Deferred *d = ty.defer(r.name, K_TOKEN_KIND, xcls))
            d->text = mc::fmt("%s(%a = %.17g, prec %d) wrote \"%s\" for a finite argument", r.name, x, x, prec, vis(t, len).c_str());
        return false;
    }
    // shape: -?digits(.digits)?
    size_t i = 0;
    bool neg = false;
    if (t[i] == '-')
    {
        neg = true;
        i++;
    }
    size_t i0 = i;
    unsigned __int128 N = 0;
    while (t[i] >= '0' && t[i] <= '9')
        N = N * 10 + (t[i++] - '0');
    size_t nint = i - i0;
    int k = -1; // number of fraction digits, -1 = no point
    if (t[i] == '.')
    {
        i++;
        k = 0;
        while (t[i] >= '0' && t[i] <= '9')
        {
            N = N * 10 + (t[i++] - '0');
            k++;
        }
    }
    bool shape_ok = i == len && nint >= 1 && k != 0 && nint <= 20 && k <= 12;
    if (shape_ok && nint > 1 && t[i0] == '0')
        shape_ok = false; // leading zero
    if (!shape_ok)
    {
        bool nonnum = false;
        for (size_t j = 0; j < len; j++)
            if (!((t[j] >= '0' && t[j] <= '9') || t[j] == '.' || t[j] == '-'))
                nonnum = true;
        if (beyond && nonnum)
        {
            static const char *const K_NONNUM = "non_numeric_character";
            if (Tally::Deferred *d = ty.defer(r.name, K_NONNUM, xcls))
                d->text = mc::fmt("%s(%a = %.17g, prec %d) wrote \"%s\"", r.name, x, x, prec, vis(t, len).c_str());
            return false;
        }
        mc::violation(mc::fmt("C12.%s.%s.%s", r.name, nonnum ? "non_numeric_character" : "malformed", xcls), "%s(%a = %.17g, prec %d) wrote \"%s\"", r.name, x, x,
                      prec, vis(t, len).c_str());
        return false;
    }
    int kk = k < 0 ? 0 : k;
    if (fabs(xe) >= r.range)
        return true; // beyond the supported magnitude range only "numeric characters, no write beyond the text" is demanded
    ty.in_range++;
    ty.lens |= 1ull << (len & 63);
    if (kk > ty.maxfrac)
        ty.maxfrac = kk;
    // number of fraction digits
    bool kok = prec < 0 ? true : prec <= 10 ? kk == prec : (kk == 10 || kk == prec);
    if (!kok)
    {
        mc::violation(mc::fmt("C12.%s.fraction_digits", r.name), "%s(%a = %.9g, prec %d) wrote \"%s\": %d fraction digits", r.name, x, x, prec, t, kk);
        return false;
    }
    // value
    long double v = (long double)N / g_p10[kk];
    long double ax = fabsl((long double)x);
    long double tol = 1.0L / g_p10[kk] + 4 * spacing32(ax);
    long double err = fabsl(v - ax);
    double rel = (double)(err / tol);
    if (rel > ty.worst)
        ty.worst = rel;
    if (err > tol)
    {
        mc::violation(mc::fmt("C12.%s.value.prec_%s", r.name, prec < 0 ? "auto" : mc::fmt("%d", prec).c_str()),
                      "%s(%a = %.17g, prec %d) wrote \"%s\": off by %.3Lg, allowed 10^-%d + 4 spacings = %.3Lg", r.name, x, x, prec, t, err, kk, tol);
        return false;
    }
    // sign
    bool zero_text = N == 0;
    bool want_neg = std::signbit(x);
    if ((neg && !want_neg) || (!neg && x < 0 && !zero_text))
    {
        mc::violation(mc::fmt("C12.%s.sign", r.name), "%s(%a = %.9g, prec %d) wrote \"%s\"", r.name, x, x, prec, t);
        return false;
    }
    return true;
}

// One rendering, two passes: into a 64-byte block pre-filled with a pattern (nothing beyond the NUL may change),
// then again into a block of exactly strlen+1 bytes (ASan reports any write beyond the text).
static void check_render(const Rend &r, double x, int prec, Tally &ty, bool second_pass)
{
    char *big = pool(64);
    memset(big, 0x55, 64);
    r.fn(x, big, prec);
    size_t len = strnlen(big, 64);
    if (len >= 64)
    {
        mc::violation(mc::fmt("C12.%s.unterminated", r.name), "%s(%a, prec %d): no NUL within 64 bytes", r.name, x, prec);
        return;
    }
    static const char fill[64] = {0x55, 0x55, 0x55, 0x55, 0x55, 0x55, 0x55, 0x55, 0x55, 0x55, 0x55, 0x55, 0x55, 0x55, 0x55, 0x55, 0x55, 0x55, 0x55, 0x55, 0x55, 0x55,
                                  0x55, 0x55, 0x55, 0x55, 0x55, 0x55, 0x55, 0x55, 0x55, 0x55, 0x55, 0x55, 0x55, 0x55, 0x55, 0x55, 0x55, 0x55, 0x55, 0x55, 0x55, 0x55,
                                  0x55, 0x55, 0x55, 0x55, 0x55, 0x55, 0x55, 0x55, 0x55, 0x55, 0x55, 0x55, 0x55, 0x55, 0x55, 0x55, 0x55, 0x55, 0x55, 0x55};
    if (memcmp(big + len + 1, fill, 63 - len) != 0)
        for (size_t j = len + 1; j < 64; j++)
            if ((unsigned char)big[j] != 0x55)
            {
                mc::violation(mc::fmt("C12.%s.write_beyond_text", r.name), "%s(%a, prec %d) wrote \"%s\" and changed byte %zu after the terminator", r.name, x,
                              prec, vis(big, len).c_str(), j);
                return;
            }
    judge(r, x, prec, big, len, ty);
    if (second_pass)
    {
        char keep[64];
        memcpy(keep, big, len + 1);
        // third call into a buffer that is never cleared: it still holds the previous (often longer) text of this renderer family.
        // The terminator must be where it was in the fresh buffer.
        static char reused[4][64];
        char *ru = reused[&r - RENDS < 4 ? &r - RENDS : 0];
        r.fn(x, ru, prec);
        if (memcmp(ru, keep, len + 1) != 0)
            mc::violation(mc::fmt("C12.%s.stale_text_in_reused_buffer", r.name), "%s(%a, prec %d): \"%s\" in a fresh buffer, \"%s\" in a buffer that held an earlier text",
                          r.name, x, prec, vis(keep, len).c_str(), vis(ru, strnlen(ru, 63)).c_str());
        char *ex = pool(len + 1);
        memset(ex, 0xAA, len + 1);
        r.fn(x, ex, prec);
        if (memcmp(ex, keep, len + 1) != 0)
            mc::violation(mc::fmt("C12.%s.depends_on_buffer_content", r.name), "%s(%a, prec %d): \"%s\" then \"%s\"", r.name, x, prec, vis(keep, len).c_str(),
                          vis(ex, len + 1).c_str());
    }
}
static void emit(const Tally &ty)
{
    for (auto &d : ty.deferred)
    {
        std::string sig = mc::fmt("C12.%s.%s.%s", d.rname, d.kind, d.xcls);
        mc::count(sig.substr(4) + ".calls", (long)d.count);
        mc::violation(sig, "%s; %llu calls of this case fail this way", d.text.c_str(), (unsigned long long)d.count);
    }
    for (int i = 0; i < 64; i++)
        if (ty.lens >> i & 1)
            mc::outcome(mc::fmt("len=%d", i));
    mc::outcome(mc::fmt("maxfrac=%d", ty.maxfrac));
    if (ty.tokens)
        mc::outcome("token");
    mc::count("rendered_in_supported_range", (long)ty.in_range);
    mc::count("rendered_beyond_supported_range_chars_only", (long)(ty.n - ty.in_range - ty.tokens));
    mc::count(mc::fmt("worst_error_in_percent_of_tolerance_%03d", (int)(ty.worst * 100 / 10) * 10), 1);
}

// ---------------------------------------------------------------- families
static std::vector<uint32_t> g_m23; // mantissa fields: <= 3 bits set, and <= 2 bits cleared
static std::vector<uint64_t> g_m52; // <= 2 bits set, <= 1 bit cleared
static std::vector<int> g_e64;      // biased binary64 exponent fields
static void build_families()
{
    g_p10[0] = 1;
    for (int i = 1; i < 24; i++)
        g_p10[i] = g_p10[i - 1] * 10;
    std::set<uint32_t> a;
    for (int i = -1; i < 23; i++)
        for (int j = i; j < 23; j++)
            for (int k = j; k < 23; k++)
            {
                uint32_t v = (i < 0 ? 0 : 1u << i) | (j < 0 ? 0 : 1u << j) | (k < 0 ? 0 : 1u << k);
                a.insert(v);
                if (i < 0)
                    a.insert(0x7FFFFF & ~v);
            }
    g_m23.assign(a.begin(), a.end());
    std::set<uint64_t> b;
    const uint64_t M = (1ull << 52) - 1;
    b.insert(0);
    b.insert(M);
    for (int i = 0; i < 52; i++)
    {
        b.insert(M & ~(1ull << i));
        for (int j = i; j < 52; j++)
            b.insert((1ull << i) | (1ull << j));
    }
    g_m52.assign(b.begin(), b.end());
    // exponents: everything binary32 can hold and its overflow/underflow fringes, plus the ends of binary64
    for (int e = 1023 - 160; e <= 1023 + 140; e++)
        g_e64.push_back(e);
    for (int e : {0, 1, 2, 52, 2046, 2045, 2000, 1023 + 1000})
        g_e64.push_back(e);
    g_e64.push_back(2047); // inf / nan
}

// ---------------------------------------------------------------- parsers under test
struct Pars
{
    const char *name;
    bool flt;     // result is a float
    bool has_end; // takes an end pointer
    double (*fn)(const char *, char **);
};
static const Pars PARS[] = {
    {"igris_atof32", true, true, [](const char *s, char **e) { return (double)igris_atof32(s, e); }},
    {"igris_atof64", false, true, [](const char *s, char **e) { return igris_atof64(s, e); }},
    {"igris_strtod", false, true, [](const char *s, char **e) { return igris_strtod(s, e); }},
    {"strtod", false, true, [](const char *s, char **e) { return igc_strtod(s, e); }},
    {"atof", false, false, [](const char *s, char **) { return igc_atof(s); }},
};
static const int NPARS = sizeof PARS / sizeof PARS[0];

static inline int64_t ord64(double d)
{
    int64_t i;
    memcpy(&i, &d, 8);
    return i < 0 ? INT64_MIN - i : i;
}
static inline int64_t ord32(float f)
{
    int32_t i;
    memcpy(&i, &f, 4);
    return i < 0 ? (int64_t)INT32_MIN - i : i;
}
static unsigned long long ulps(const Pars &p, double got, double want)
{
    if (std::isnan(got) || std::isnan(want))
        return std::isnan(got) && std::isnan(want) ? 0 : ~0ull;
    __int128 d = p.flt ? (__int128)ord32((float)got) - ord32((float)want) : (__int128)ord64(got) - ord64(want);
    if (d < 0)
        d = -d;
    return (unsigned long long)d;
}

static const int LONG_MANTISSA = 15; // more significant digits than this: the double accumulator of igris_atof64 starts rounding
struct Lit
{
    int mant_digits; // digits in the mantissa (integer + fraction)
    int frac_digits;
    bool has_exp;
    int exp_val; // signed
    int sig_digits = 0; // mantissa digits from the first non-zero one on
};

static void check_parse(const Pars &p, const char *s, size_t slen, const Lit &L, double want_d, float want_f, size_t want_end, uint64_t &worst,
                        bool also_readonly = true)
{
    char *end = nullptr;
    double got = p.fn(s, p.has_end ? &end : nullptr);
    if (also_readonly)
    {
        // again with the text in read-only memory and without an end pointer: same bits
        double again = p.fn(ro_twin(s), nullptr);
        if (memcmp(&again, &got, sizeof got) != 0)
            mc::violation(mc::fmt("C12.%s.value_differs_on_readonly_copy_or_null_end", p.name), "%s(\"%s\") = %.17g, on the read-only copy with end = NULL %.17g",
                          p.name, vis(s, slen).c_str(), got, again);
    }
    double want = p.flt ? (double)want_f : want_d;
    // end of the literal
    if (p.has_end)
    {
        if (L.mant_digits == 0)
            mc::count("no_mantissa_digit_end_not_compared");
        else if (end != s + want_end)
        {
            const char *kind;
            long off = end ? (long)(end - s) : -999;
            if (!end)
                kind = "not_written";
            else if (off < 0 || off > (long)slen)
                kind = "outside_the_string";
            else if (off < (long)want_end)
            {
                char c = s[off];
                kind = (c == 'e' || c == 'E') ? "stopped_at_exponent" : c == '.' ? "stopped_at_point" : (c == '+') ? "stopped_at_plus" : "stopped_early";
            }
            else
                kind = (s[want_end] == 'e' || s[want_end] == 'E') ? "consumed_exponent_marker_without_digits" : "overrun";
            mc::violation(mc::fmt("C12.%s.end.%s", p.name, kind), "%s(\"%s\"): *end = buf%+ld, the literal ends at %zu", p.name, vis(s, slen).c_str(), off, want_end);
        }
    }
    // value: infinities are a class of their own (DBL_MAX and inf are adjacent in the ulp ordering, but not the same answer)
    if (std::isinf(got) != std::isinf(want) && !std::isnan(got))
    {
        mc::violation(mc::fmt("C12.%s.value.%s", p.name, std::isinf(want) ? "finite_instead_of_inf" : "inf_instead_of_finite"),
                      "%s(\"%s\") = %.17g, strto%c gives %.17g", p.name, vis(s, slen).c_str(), got, p.flt ? 'f' : 'd', want);
        return;
    }
    unsigned long long u = ulps(p, got, want);
    if (u > worst && u != ~0ull)
        worst = u;
    if (u > 8)
    {
        int shift = (L.has_exp ? L.exp_val : 0) - L.frac_digits;
        int ashift = shift < 0 ? -shift : shift;
        std::string cls;
        bool end_wrong = p.has_end && L.mant_digits && end != s + want_end;
        if (end_wrong)
            cls = "with_wrong_end";
        else if (u <= 128 && ashift > 10 && std::isfinite(got) && got != 0 && (got < 0) == (want < 0))
            cls = "scaling_drift.decimal_shift_gt_10";
        else if (u <= 128 && L.sig_digits > LONG_MANTISSA && std::isfinite(got) && got != 0 && (got < 0) == (want < 0))
            cls = mc::fmt("long_mantissa_drift.digits_gt_%d", LONG_MANTISSA); // small error only: a wrapped or truncated mantissa is orders of magnitude off
        else if (u > 1024)
            cls = L.sig_digits > LONG_MANTISSA ? "gross_error.long_mantissa" : L.has_exp ? "gross_error.exponent" : L.frac_digits ? "gross_error.fraction" : "gross_error.integer";
        else if (L.has_exp && L.exp_val < 0)
            cls = "negative_exponent";
        else if (L.has_exp)
            cls = "exponent";
        else if (L.frac_digits)
            cls = "fraction";
        else
            cls = "integer";
        mc::violation(mc::fmt("C12.%s.value.%s", p.name, cls.c_str()), "%s(\"%s\") = %.17g, strto%c gives %.17g (%llu ulp apart, decimal shift %d)", p.name,
                      vis(s, slen).c_str(), got, p.flt ? 'f' : 'd', want, u, shift);
    }
}

// ================================================================= sub-checks
static const int PRECS_ALL[14] = {-1, 0, 1, 2, 3, 4, 5, 6, 7, 8, 9, 10, 11, 12};

// The -funsigned-char build (plain char is unsigned on ARM / PowerPC / RISC-V) re-runs a selection of the sub-checks.
static void reg(const char *name, std::function<void()> body)
{
#ifdef VARIANT_UCHAR
    static const char *const SEL[] = {"render_decimal_ties_and_carries", "debug_printdec_large_magnitudes", "parse_long_mantissa", "parse_exponent_range"};
    bool in = false;
    for (const char *q : SEL)
        in |= !strcmp(q, name);
    if (!in)
        return;
#endif
    mc::add_check(name, body);
}

MC_INIT
{
    build_families();

    // (1) binary32 family: every exponent field x both signs x mantissas with <=3 bits set / <=2 bits cleared x precisions -1..12
    reg("render_f32_family_all_precisions", [] {
        int c0 = mc::choose(256 * 2);
        uint32_t ef = c0 / 2, sign = c0 % 2;
        mc::describe("binary32 exponent field %u sign %u: %zu mantissas x precisions -1..12, igris_f32toa + debug_printdec_double_prec/_float_prec (+ f64toa, ftoa at 4 precisions)", ef, sign,
                     g_m23.size());
        mc::crash_context("C12.igris_f32toa.memory");
        Tally ty;
        for (uint32_t m : g_m23)
        {
            float x = f_of(sign << 31 | ef << 23 | m);
            for (int pi = 0; pi < 14; pi++)
                for (int r = 0; r < NREND; r++)
                {
                    int pr = PRECS_ALL[pi];
                    if (r >= R_DPRINT_DOUBLE && pr < 0)
                        continue; // no automatic mode
                    if ((r == 1 || r == 2) && !(pr == -1 || pr == 0 || pr == 6 || pr == 10))
                        continue; // the double entry points on float values: four precisions here, all of them in (2) and (3)
                    check_render(RENDS[r], (double)x, pr, ty, r == 0);
                }
            mc::tick();
        }
        mc::crash_context("C12.harness");
        emit(ty);
        if (ty.in_range)
            mc::nontrivial();
        mc::more_cases(ty.n - 1, ty.in_range ? ty.in_range - 1 : 0);
    });

    // (2) decimal neighbourhoods: (A + h/2) / 10^q, its float neighbours -2..+2 ulp, both signs, all precisions:
    //     rounding ties, carries into the integer part (9.99.. -> 10.0), digit-count boundaries
    reg("render_decimal_ties_and_carries", [] {
        static std::vector<long> A;
        if (A.empty())
        {
            for (long a = 0; a <= 20; a++)
                A.push_back(a);
            for (long c : {100L, 1000L, 10000L, 100000L, 1000000L, 10000000L, 100000000L, 1000000000L, 2147483647L})
                for (long d = -5; d <= 5; d++)
                    A.push_back(c + d);
            for (long c : {25L, 50L, 75L, 125L, 255L, 4095L, 65535L, 123456L, 999999999L})
                A.push_back(c);
        }
        int c0 = mc::choose((int)A.size());
        long a = A[c0];
        mc::describe("x = (%ld + h/2)/10^q, q = 0..10, h = 0,1, float neighbours -2..+2, both signs, precisions -1..12, five renderers", a);
        mc::crash_context("C12.igris_f32toa.memory");
        Tally ty;
        for (int q = 0; q <= 10; q++)
            for (int h = 0; h < 2; h++)
            {
                float c = (float)(((long double)a + h * 0.5L) / g_p10[q]);
                uint32_t cb = bits_of(c);
                for (int d = -2; d <= 2; d++)
                {
                    if ((int64_t)cb + d < 0)
                        continue;
                    for (uint32_t sign = 0; sign < 2; sign++)
                    {
                        float x = f_of((cb + d) | sign << 31);
                        for (int pi = 0; pi < 14; pi++)
                            for (int r = 0; r < NREND; r++)
                                if (r < R_DPRINT_DOUBLE || PRECS_ALL[pi] >= 0)
                                    check_render(RENDS[r], (double)x, PRECS_ALL[pi], ty, r < R_DPRINT_DOUBLE);
                    }
                }
            }
        mc::crash_context("C12.harness");
        emit(ty);
        if (ty.in_range)
            mc::nontrivial();
        mc::more_cases(ty.n - 1, ty.in_range ? ty.in_range - 1 : 0);
    });

    // (3) binary64 family through igris_f64toa and igris_ftoa
    reg("render_f64_family", [] {
        int c0 = mc::choose((int)g_e64.size());
        uint64_t ef = g_e64[c0];
        mc::describe("binary64 exponent field %llu: %zu mantissas x both signs x precisions -1..12, igris_f64toa + igris_ftoa + debug_printdec_double_prec", (unsigned long long)ef, g_m52.size());
        mc::crash_context("C12.igris_f64toa.memory");
        Tally ty;
        for (uint64_t m : g_m52)
        {
            for (uint64_t sign = 0; sign < 2; sign++)
            {
                double x = d_of(sign << 63 | ef << 52 | m);
                for (int pi = 0; pi < 14; pi++)
                    for (int r = 1; r <= R_DPRINT_DOUBLE; r++) // doubles: not the float forwarder
                    {
                        int pr = PRECS_ALL[pi];
                        if (r == R_DPRINT_DOUBLE && pr < 0)
                            continue;
                        if (r == 2 && !(pr == -1 || pr == 0 || pr == 6 || pr == 10))
                            continue; // igris_ftoa is igris_f64toa: four precisions
                        check_render(RENDS[r], x, pr, ty, r < R_DPRINT_DOUBLE && pi % 4 == 0);
                    }
            }
            mc::tick();
        }
        mc::crash_context("C12.harness");
        emit(ty);
        if (ty.in_range)
            mc::nontrivial();
        mc::more_cases(ty.n - 1, ty.in_range ? ty.in_range - 1 : 0);
    });

    // (3b) the debug printers on large magnitudes: every power of two 2^24..2^64 and every power of ten 10^8..10^19, as floats,
    //      with their float neighbours -2..+2 ulp (2^32 - 1 ulp = 4294967040 is the largest float below 2^32), both signs,
    //      precisions 0..12: debug_printdec_float_prec and debug_printdec_double_prec; the double printer also on the double
    //      neighbours -1..+1 ulp of each power. The integer part of the unchanged routines is a uint64_t: exact below 2^64.
    reg("debug_printdec_large_magnitudes", [] {
        int c0 = mc::choose((41 + 12) * 2);
        int which = c0 / 2;
        uint32_t sign = c0 % 2;
        double centre = which < 41 ? ldexp(1.0, 24 + which) : (double)g_p10[8 + (which - 41)];
        mc::describe("%s%s%d: float neighbours -2..+2 ulp (and double neighbours -1..+1 for the double printer) x precisions 0..12", sign ? "-" : "+",
                     which < 41 ? "2^" : "10^", which < 41 ? 24 + which : 8 + which - 41);
        mc::crash_context("C12.debug_printdec_float_prec.memory");
        Tally ty;
        uint32_t cb = bits_of((float)centre);
        for (int d = -2; d <= 2; d++)
        {
            float x = f_of((cb + d) | sign << 31);
            if (!std::isfinite(x))
                continue;
            for (int pr = 0; pr <= 12; pr++)
            {
                check_render(RENDS[R_DPRINT_FLOAT], (double)x, pr, ty, false);
                check_render(RENDS[R_DPRINT_DOUBLE], (double)x, pr, ty, false);
            }
        }
        uint64_t db = bits_of(centre);
        for (int d = -1; d <= 1; d++)
        {
            double x = d_of((db + d) | (uint64_t)sign << 63);
            for (int pr = 0; pr <= 12; pr++)
                check_render(RENDS[R_DPRINT_DOUBLE], x, pr, ty, false);
        }
        mc::crash_context("C12.harness");
        emit(ty);
        if (ty.in_range)
            mc::nontrivial();
        mc::more_cases(ty.n - 1, ty.in_range ? ty.in_range - 1 : 0);
    });

    // (4) binary32 sweep. thorough: all 2^32 bit patterns; quick: the 2^21 patterns whose low 11 mantissa bits are all 0 or all 1.
    //     precisions: automatic, 3 and 10 (longest digit loop, largest accumulated single-precision error)
    reg("render_f32_sweep", [] {
        int blk = mc::choose(1024); // sign, exponent field, top bit of the mantissa
        static const int P[3] = {-1, 3, 10};
        int prec = P[mc::choose(3)];
        bool th = mc::thorough();
        uint32_t lo = (uint32_t)blk << 22;
        mc::describe("igris_f32toa on bit patterns %08x..%08x%s, precision %d", lo, lo + 0x3FFFFF, th ? "" : " with low 11 bits all 0 / all 1", prec);
        mc::crash_context("C12.igris_f32toa.memory");
        Tally ty;
        const Rend &r = RENDS[0];
        char *big = pool(64);
        uint64_t bad_chars = 0, first_bad = 0;
        char first_bad_text[64] = "";
        uint32_t step = th ? 1 : 0x800;
        for (uint64_t b = lo; b < (uint64_t)lo + 0x400000; b += step)
            for (int side = 0; side < (th ? 1 : 2); side++)
            {
                uint32_t pat = (uint32_t)b | (side ? 0x7FF : 0);
                float x = f_of(pat);
                if ((pat & 0xFFFF) == 0)
                    mc::tick();
                if (std::isfinite(x) && fabsf(x) >= 0x1p31f)
                {
                    // beyond the supported range: only "numeric characters, nothing written beyond the text".
                    // (reported once per block, not once per pattern)
                    memset(big, 0x55, 32);
                    r.fn((double)x, big, prec);
                    size_t len = strnlen(big, 32);
                    bool bad = len >= 32;
                    for (size_t j = 0; j < len && !bad; j++)
                        if (!((big[j] >= '0' && big[j] <= '9') || big[j] == '.' || big[j] == '-'))
                            bad = true;
                    for (size_t j = len + 1; j < 32 && !bad; j++)
                        if ((unsigned char)big[j] != 0x55)
                            bad = true;
                    ty.n++;
                    if (bad && !bad_chars++)
                    {
                        first_bad = pat;
                        memcpy(first_bad_text, big, 32);
                        first_bad_text[32] = 0;
                    }
                    continue;
                }
                check_render(r, (double)x, prec, ty, false);
            }
        if (bad_chars)
        {
            float x = f_of((uint32_t)first_bad);
            mc::count("f32toa_patterns_beyond_2p31_with_non_numeric_text", (long)bad_chars);
            mc::violation("C12.igris_f32toa.non_numeric_character.abs_ge_2p31",
                          "igris_f32toa(%a = %.9g, prec %d) wrote \"%s\"; %llu of the patterns of this block with |x| >= 2^31 give non-numeric text", x, x, prec,
                          vis(first_bad_text, strnlen(first_bad_text, 32)).c_str(), (unsigned long long)bad_chars);
        }
        mc::crash_context("C12.harness");
        emit(ty);
        if (ty.in_range)
            mc::nontrivial();
        mc::more_cases(ty.n - 1, ty.in_range ? ty.in_range - 1 : 0);
    });

    // (5) every literal [+-]?d{0,3}(.d{0,3})?(e[+-]?d{1,2}|E[+-]?d)? over d in {0,1,5,9}, followed by each terminator,
    //     ("", " ", "x", "e", "e+", "E-", ".", "-"), through the five entry points; oracle = glibc strtod/strtof on the same bytes
    reg("parse_literal_grammar", [] {
        static const char D[4] = {'0', '1', '5', '9'};
        static const char *const T[8] = {"", " ", "x", "e", "e+", "E-", ".", "-"};
        // first choice: sign (3) x integer part (85 digit strings of length 0..3)
        int c0 = mc::choose(3 * 85);
        int sg = c0 / 85, ip = c0 % 85;
        char lit[40];
        int n = 0;
        if (sg == 1)
            lit[n++] = '+';
        if (sg == 2)
            lit[n++] = '-';
        auto digits = [&](int idx, int &cnt) { // idx in 0..84 -> digit string of length 0..3
            int len = idx == 0 ? 0 : idx < 5 ? 1 : idx < 21 ? 2 : 3;
            int v = idx - (len == 0 ? 0 : len == 1 ? 1 : len == 2 ? 5 : 21);
            char t[3];
            for (int i = len - 1; i >= 0; i--)
            {
                t[i] = D[v % 4];
                v /= 4;
            }
            for (int i = 0; i < len; i++)
                lit[n++] = t[i];
            cnt = len;
        };
        int ilen;
        digits(ip, ilen);
        lit[n] = 0;
        mc::describe("literals starting \"%s\": x 86 fractions x 73 exponents x 8 terminators x 5 entry points", lit);
        int n_after_int = n;
        uint64_t cases = 0, nt = 0, worst = 0;
        std::set<std::string> outs;
        for (int fr = 0; fr < 86; fr++)
        {
            n = n_after_int;
            int flen = 0;
            if (fr)
            {
                lit[n++] = '.';
                digits(fr - 1, flen);
            }
            int n_after_frac = n;
            for (int ex = 0; ex < 73; ex++)
            {
                n = n_after_frac;
                Lit L{ilen + flen, flen, false, 0};
                if (ex)
                {
                    int e = ex - 1;                            // 0..71
                    int marker = e >= 60;                      // 'e': 3 signs x (4 one-digit + 16 two-digit); 'E': 3 signs x 4 one-digit
                    int es = marker ? (e - 60) / 4 : e / 20;   // none + -
                    int dv = marker ? (e - 60) % 4 : e % 20;
                    lit[n++] = marker ? 'E' : 'e';
                    if (es == 1)
                        lit[n++] = '+';
                    if (es == 2)
                        lit[n++] = '-';
                    int val;
                    if (dv < 4)
                    {
                        lit[n++] = D[dv];
                        val = D[dv] - '0';
                    }
                    else
                    {
                        lit[n++] = D[(dv - 4) / 4];
                        lit[n++] = D[(dv - 4) % 4];
                        val = (D[(dv - 4) / 4] - '0') * 10 + (D[(dv - 4) % 4] - '0');
                    }
                    L.has_exp = true;
                    L.exp_val = es == 2 ? -val : val;
                }
                for (int t = 0; t < 8; t++)
                {
                    size_t len = n;
                    for (const char *q = T[t]; *q; q++)
                        lit[len++] = *q;
                    lit[len] = 0;
                    const char *s = exact_copy(lit, len);
                    char *gend = nullptr;
                    double wd = strtod(s, &gend);
                    float wf = strtof(s, nullptr);
                    size_t wend = gend - s;
                    if (L.mant_digits && wend < (size_t)n) // glibc stopped inside what the grammar calls the literal: cannot happen
                        mc::harness_error("glibc strtod(\"%s\") ended at %zu, literal length %d", s, wend, n);
                    for (int k = 0; k < NPARS; k++)
                    {
                        mc::crash_context("C12.%s.memory", PARS[k].name);
                        check_parse(PARS[k], s, len, L, wd, wf, wend, worst, t == 0 || t == 2 || t == 4);
                        cases++;
                        nt += L.mant_digits && (flen || L.has_exp);
                    }
                    if (outs.size() < 200)
                        outs.insert(mc::fmt("end=%zu", wend));
                }
            }
            mc::tick();
        }
        mc::crash_context("C12.harness");
        for (auto &o : outs)
            mc::outcome(o);
        mc::count(mc::fmt("worst_ulp_distance_%llu", (unsigned long long)(worst > 200 ? 200 : worst)), 1);
        if (nt)
            mc::nontrivial();
        mc::more_cases(cases - 1, nt ? nt - 1 : 0);
    });

    // (6) long mantissas: 1..40 significant digits (all 9s, all 1s, 1 and zeros, the digits of pi, the neighbourhoods of 2^53, 2^63,
    //     2^64, 10^19), with and without leading zeros, the decimal point at every position (and absent), sign, exponents
    //     {none, e-5, e+5, E0}, terminators {"", " ", "x", "e"}, the five entry points; oracle as in (5)
    reg("parse_long_mantissa", [] {
        static std::vector<std::string> DS;
        if (DS.empty())
        {
            static const char PI[] = "3141592653589793238462643383279502884197";
            for (int L = 1; L <= 40; L++)
            {
                DS.push_back(std::string(L, '9'));
                DS.push_back(std::string(L, '1'));
                DS.push_back("1" + std::string(L - 1, '0'));
                DS.push_back(std::string(PI, L));
            }
            for (const char *q : {"9007199254740991", "9007199254740992", "9007199254740993", "9007199254740994", "9223372036854775807", "9223372036854775808",
                                  "9223372036854775809", "18446744073709551615", "18446744073709551616", "18446744073709551617", "9999999999999999998",
                                  "10000000000000000001", "4294967295", "4294967296", "4294967297", "17976931348623157", "12345678901234567890123456789",
                                  "50000000000000000000000000000000000001"})
                DS.push_back(q);
        }
        int c0 = mc::choose((int)DS.size() * 2);
        const std::string &dg = DS[c0 / 2];
        bool lead0 = c0 % 2;
        int nd = (int)dg.size();
        mc::describe("digits %s%s (%d significant): point at every position / absent x 3 signs x 4 exponents x 4 terminators x 5 entry points", lead0 ? "00+" : "",
                     dg.c_str(), nd);
        static const char *const SG[3] = {"", "-", "+"};
        static const char *const EX[4] = {"", "e-5", "e+5", "E0"};
        static const int EXV[4] = {0, -5, 5, 0};
        static const char *const T[4] = {"", " ", "x", "e"};
        uint64_t cases = 0, nt = 0, worst = 0;
        std::set<std::string> outs;
        char lit[120];
        for (int pt = -1; pt <= nd; pt++) // -1: no point; k: point after k digits
            for (int sg = 0; sg < 3; sg++)
                for (int ex = 0; ex < 4; ex++)
                    for (int t = 0; t < 4; t++)
                    {
                        int n = 0;
                        for (const char *q = SG[sg]; *q; q++)
                            lit[n++] = *q;
                        int lz = lead0 ? 2 : 0;
                        // leading zeros go in front of the integer part; if the point is at position 0 they are the integer part
                        for (int i = 0; i < lz; i++)
                            lit[n++] = '0';
                        for (int i = 0; i < nd; i++)
                        {
                            if (i == pt)
                                lit[n++] = '.';
                            lit[n++] = dg[i];
                        }
                        if (pt == nd)
                            lit[n++] = '.';
                        for (const char *q = EX[ex]; *q; q++)
                            lit[n++] = *q;
                        int litlen = n;
                        for (const char *q = T[t]; *q; q++)
                            lit[n++] = *q;
                        lit[n] = 0;
                        Lit L{lz + nd, pt < 0 ? 0 : nd - pt, ex != 0, EXV[ex], nd};
                        const char *s = exact_copy(lit, n);
                        char *gend = nullptr;
                        double wd = strtod(s, &gend);
                        float wf = strtof(s, nullptr);
                        size_t wend = gend - s;
                        if (wend < (size_t)litlen)
                            mc::harness_error("glibc strtod(\"%s\") ended at %zu, literal length %d", s, wend, litlen);
                        for (int k = 0; k < NPARS; k++)
                        {
                            mc::crash_context("C12.%s.memory", PARS[k].name);
                            check_parse(PARS[k], s, n, L, wd, wf, wend, worst);
                            cases++;
                            nt += nd > LONG_MANTISSA;
                        }
                        if (outs.size() < 100)
                            outs.insert(mc::fmt("end=%zu", wend));
                    }
        mc::crash_context("C12.harness");
        for (auto &o : outs)
            mc::outcome(o);
        mc::count(mc::fmt("worst_ulp_distance_%llu", (unsigned long long)(worst > 200 ? 200 : worst)), 1);
        if (nt)
            mc::nontrivial();
        mc::more_cases(cases - 1, nt ? nt - 1 : 0);
    });

    // (7) exponent range: a few mantissas x exponents from 0 to far beyond what any accumulator holds (overflow to inf, underflow
    //     through the denormals to 0, 2^31, 2^32, 2^64 digit strings, leading zeros) x signs x markers x terminators, five entry
    //     points. Oracle as in (5); inf must meet inf; and every call must return (watchdog: signature ...exponent_range.hang)
    reg("parse_exponent_range", [] {
        static const char *const MANT[6] = {"0", "1", "1.5", "123.5", ".1", "9.999999999999999"};
        static const int MFRAC[6] = {0, 0, 1, 1, 1, 15}, MDIG[6] = {1, 1, 2, 4, 1, 16};
        static const char *const EXPS[] = {"0", "+0", "-0", "5", "22", "23", "-22", "-23", "37", "38", "39", "-37", "-45", "-46", "99", "-99", "100", "307", "308",
                                           "309", "-307", "-308", "-323", "-324", "-325", "400", "-400", "4000", "-4000", "99999", "-99999", "100000", "-100001",
                                           "2147483647", "2147483648", "-2147483648", "-2147483649", "4294967295", "4294967296", "4294967297", "-4294967296",
                                           "4294967301", "99999999999", "-99999999999", "18446744073709551616", "18446744073709551621", "-18446744073709551616",
                                           "00000000000000000005", "-00000000000000000005", "+00000000000000000000000000000000000000000000000000000000000000000308"};
        static const int NEXP = sizeof EXPS / sizeof EXPS[0];
        int c0 = mc::choose(6 * NEXP);
        int mi = c0 / NEXP, ei = c0 % NEXP;
        mc::describe("%se%s / %sE%s: 3 signs x 4 terminators x 5 entry points", MANT[mi], EXPS[ei], MANT[mi], EXPS[ei]);
        long long ev = atoll(EXPS[ei]); // saturates at LLONG_MAX/MIN, only used to label violations
        int evs = ev > 100000 ? 100000 : ev < -100000 ? -100000 : (int)ev;
        static const char *const SG[3] = {"", "-", "+"};
        static const char *const T[4] = {"", " ", "x", "e"};
        uint64_t cases = 0, worst = 0;
        char lit[160];
        std::set<std::string> outs;
        for (int mk = 0; mk < 2; mk++)
            for (int sg = 0; sg < 3; sg++)
                for (int t = 0; t < 4; t++)
                {
                    int n = snprintf(lit, sizeof lit, "%s%s%c%s", SG[sg], MANT[mi], mk ? 'E' : 'e', EXPS[ei]);
                    int litlen = n;
                    n += snprintf(lit + n, sizeof lit - n, "%s", T[t]);
                    Lit L{MDIG[mi], MFRAC[mi], true, evs, MDIG[mi]};
                    const char *s = exact_copy(lit, n);
                    char *gend = nullptr;
                    double wd = strtod(s, &gend);
                    float wf = strtof(s, nullptr);
                    size_t wend = gend - s;
                    if (wend < (size_t)litlen)
                        mc::harness_error("glibc strtod(\"%s\") ended at %zu, literal length %d", s, wend, litlen);
                    for (int k = 0; k < NPARS; k++)
                    {
                        mc::crash_context("C12.%s.exponent_range", PARS[k].name); // + ".hang" / ".asan-..." / ".segv"
                        check_parse(PARS[k], s, n, L, wd, wf, wend, worst);
                        cases++;
                    }
                    outs.insert(std::isinf(wd) ? "inf" : wd == 0 ? "zero" : std::fpclassify(wd) == FP_SUBNORMAL ? "subnormal" : "normal");
                    outs.insert(std::isinf(wf) ? "f-inf" : wf == 0 ? "f-zero" : std::fpclassify(wf) == FP_SUBNORMAL ? "f-subnormal" : "f-normal");
                }
        mc::crash_context("C12.harness");
        for (auto &o : outs)
            mc::outcome(o);
        mc::count(mc::fmt("worst_ulp_distance_%llu", (unsigned long long)(worst > 200 ? 200 : worst)), 1);
        if (mi && (ev > 99 || ev < -99))
            mc::nontrivial();
        mc::more_cases(cases - 1, (mi && (ev > 99 || ev < -99)) ? cases - 1 : 0);
    });

    // (8) long history on ONE igris::binreader: a stream of >= 40000 fields (thorough 250000; float literals, decimal integers,
    //     raw 32-bit fields, bound byte ranges, separators; > 400 KB, so every byte/call counter passes 65535 several times) is read
    //     in sequence through the same object; after EVERY read the value (strtof / strtol / the bytes) and the cursor
    //     (bind_buffer(p, 0)) are compared. The float entry point reports the end of the literal by where the reader continues.
    reg("binreader_long_history", [] {
        int variant = mc::choose(4);
        int ntok = mc::thorough() ? 250000 : 40000;
        mc::describe("one binreader, %d fields in sequence (variant %d), value and cursor after every read", ntok, variant);
        mc::nontrivial();
        struct Tok
        {
            char kind; // F I B K
            size_t at, len;
            long ival;
            uint32_t bval;
        };
        std::string st;
        std::vector<Tok> toks;
        toks.reserve(ntok);
        static const char *const EXPO[6] = {"", "e+3", "E-2", "e0", "e12", "E+00"};
        for (int i = 0; i < ntok; i++)
        {
            unsigned k = (unsigned)i * 7u + (unsigned)variant * 3u; // stride coprime to the alphabet sizes below
            Tok t{};
            t.at = st.size();
            int kind = k % 5;
            char b[64];
            if (kind <= 1 || kind == 4) // float literal (3 of 5)
            {
                t.kind = 'F';
                int n = 0;
                unsigned sg = (k / 5) % 3;
                if (sg == 1)
                    b[n++] = '-';
                if (sg == 2)
                    b[n++] = '+';
                unsigned ip = (unsigned)i * 7919u % 100000u;
                bool no_int = i % 11 == 0;
                if (!no_int)
                    n += snprintf(b + n, sizeof b - n, "%u", ip);
                int fd = no_int ? 1 + i % 3 : i % 4;
                if (fd || i % 5 == 0)
                    b[n++] = '.';
                if (fd)
                    n += snprintf(b + n, sizeof b - n, "%0*u", fd, (unsigned)i * 104729u % (fd == 1 ? 10u : fd == 2 ? 100u : 1000u));
                n += snprintf(b + n, sizeof b - n, "%s", EXPO[(k / 15) % 6]);
                st.append(b, n);
            }
            else if (kind == 2)
            {
                t.kind = 'I';
                t.ival = (long)((unsigned)i * 2654435761u % 2000001u) - 1000000;
                st += std::to_string(t.ival);
            }
            else
            {
                if (i % 2)
                {
                    t.kind = 'B';
                    t.bval = (unsigned)i * 2246822519u;
                    st.append((const char *)&t.bval, 4);
                }
                else
                {
                    t.kind = 'K';
                    st.append(1 + i % 7, (char)('a' + i % 26));
                }
            }
            t.len = st.size() - t.at;
            st += ';';
            toks.push_back(t);
        }
        char *buf = (char *)malloc(st.size() + 1); // exactly sized (ASan); NUL after the last separator
        memcpy(buf, st.data(), st.size());
        buf[st.size()] = 0;
        igris::binreader rd(buf);
        mc::crash_context("C12.binreader.memory");
        uint64_t ops = 0, floats = 0;
        auto cursor = [&]() {
            const char *p = nullptr;
            rd.bind_buffer(p, 0);
            return (long)(p - buf);
        };
        bool bad = false;
        for (int i = 0; i < ntok && !bad; i++)
        {
            const Tok &t = toks[i];
            long want_cur = (long)(t.at + t.len);
            const char *op = "";
            if (t.kind == 'F')
            {
                op = "read_ascii_decimal_float";
                char *ge = nullptr;
                float want = strtof(buf + t.at, &ge);
                if (ge != buf + t.at + t.len)
                    mc::harness_error("strtof ended at %ld, literal %zu..%zu", (long)(ge - buf), t.at, t.at + t.len);
                float got = -12345.f;
                rd.read_ascii_decimal_float(&got);
                floats++;
                __int128 d = (__int128)ord32(got) - ord32(want);
                if (d < 0)
                    d = -d;
                if (d > 8 || std::isinf(got) != std::isinf(want))
                {
                    mc::violation("C12.binreader.read_ascii_decimal_float.value", "field %d at byte %zu \"%s\": got %.9g, strtof gives %.9g", i, t.at,
                                  std::string(buf + t.at, t.len).c_str(), got, want);
                    bad = true;
                }
            }
            else if (t.kind == 'I')
            {
                op = "read_ascii_decimal_integer";
                int got = 0;
                rd.read_ascii_decimal_integer(&got);
                if (got != t.ival)
                {
                    mc::violation("C12.binreader.read_ascii_decimal_integer.value", "field %d at byte %zu: got %d want %ld", i, t.at, got, t.ival);
                    bad = true;
                }
            }
            else if (t.kind == 'B')
            {
                op = "read_binary";
                uint32_t got = 0;
                rd.read_binary(got);
                if (got != t.bval)
                {
                    mc::violation("C12.binreader.read_binary.value", "field %d at byte %zu: got %08x want %08x", i, t.at, got, t.bval);
                    bad = true;
                }
            }
            else
            {
                op = "bind_buffer";
                const char *p = nullptr;
                rd.bind_buffer(p, t.len);
                if (p != buf + t.at)
                {
                    mc::violation("C12.binreader.bind_buffer.value", "field %d: bound to byte %ld want %zu", i, (long)(p - buf), t.at);
                    bad = true;
                }
            }
            long cur = cursor();
            if (!bad && cur != want_cur)
            {
                mc::violation(mc::fmt("C12.binreader.%s.cursor", op), "after field %d (bytes %zu..%zu, %llu bytes consumed by this reader): cursor at %ld want %ld", i, t.at,
                              t.at + t.len, (unsigned long long)want_cur, cur, want_cur);
                bad = true;
            }
            // the separator: alternately skipped and read
            if (!bad)
            {
                if (i % 2)
                    rd.skip(1);
                else
                {
                    char c = 0;
                    rd.read_binary(c);
                    if (c != ';')
                    {
                        mc::violation("C12.binreader.read_binary.value", "separator after field %d: got %02x", i, (unsigned char)c);
                        bad = true;
                    }
                }
                if (!bad && cursor() != want_cur + 1)
                {
                    mc::violation("C12.binreader.skip.cursor", "after the separator of field %d: cursor at %ld want %ld", i, cursor(), want_cur + 1);
                    bad = true;
                }
            }
            ops += 4;
            if ((i & 1023) == 0)
                mc::tick();
        }
        mc::crash_context("C12.harness");
        free(buf);
        mc::outcome(mc::fmt("bytes>65535:%d", st.size() > 65535));
        mc::count("binreader_bytes_consumed", (long)st.size());
        mc::count("binreader_float_fields", (long)floats);
        mc::more_cases(ops, ops);
    });
}
MC_MAIN
