// C11 helpers: guard-page arena (a read/write page between two PROT_NONE pages) and the igc_*
// prototypes (= the repository's compat-libc functions after `objcopy --prefix-symbols=igc_`;
// the unprefixed names are glibc's = the ISO reference).
#pragma once
#include "mc.hpp"
#include <cerrno>
#include <cinttypes>
#include <cstdint>
#include <cstdlib>
#include <cstring>
#include <string>
#include <sys/mman.h>
#include <vector>

extern "C"
{
    long igc_strtol(const char *, char **, int);
    unsigned long igc_strtoul(const char *, char **, int);
    long long igc_strtoll(const char *, char **, int);
    unsigned long long igc_strtoull(const char *, char **, int);
    intmax_t igc_strtoimax(const char *, char **, int);
    uintmax_t igc_strtoumax(const char *, char **, int);
    int igc_atoi(const char *);
    long igc_atol(const char *);
    void igc_qsort(void *, size_t, size_t, int (*)(const void *, const void *));
    void *igc_bsearch(const void *, const void *, size_t, size_t, int (*)(const void *, const void *));
}

namespace c11
{
    enum
    {
        AFTER = 0,
        BEFORE = 1
    };
    static const size_t PG = 4096;
    static const size_t NPAGES = 20; // read/write pages per arena (large arrays: 1000 x 32 bytes)
    static const int W_SMALL = 384;
    inline int W = W_SMALL;          // bytes next to each guard that are reset before / inspected after a call
    inline int (*rand_hook)() = nullptr; // when set, igc_rand() returns its value instead of being a choice point
    struct Arena
    {
        uint8_t *lo = nullptr, *hi = nullptr;
        uint8_t fill = 0;
        void init(uint8_t f)
        {
            if (lo)
                return;
            uint8_t *m = (uint8_t *)mmap(nullptr, (NPAGES + 2) * PG, PROT_READ | PROT_WRITE, MAP_PRIVATE | MAP_ANONYMOUS, -1, 0);
            if (m == MAP_FAILED)
                mc::harness_error("mmap failed");
            fill = f;
            memset(m, f, (NPAGES + 2) * PG);
            mprotect(m, PG, PROT_NONE);
            mprotect(m + (NPAGES + 1) * PG, PG, PROT_NONE);
            lo = m + PG;
            hi = m + (NPAGES + 1) * PG;
        }
        void wipe() { memset(lo, fill, hi - lo); }
        void reset()
        {
            memset(hi - W, fill, W);
            memset(lo, fill, W);
        }
        uint8_t *put(const void *d, size_t n, int pl)
        {
            reset();
            uint8_t *p = pl == AFTER ? hi - n : lo;
            if (n)
                memcpy(p, d, n);
            return p;
        }
        // first byte in either window outside [p, p+n) that is not the fill byte, or -1
        long dirty_outside(const uint8_t *p, size_t n)
        {
            for (int k = 0; k < W; k++)
            {
                const uint8_t *q = hi - W + k;
                if ((q < p || q >= p + n) && *q != fill)
                    return (long)(q - p);
                q = lo + k;
                if ((q < p || q >= p + n) && *q != fill)
                    return (long)(q - p);
            }
            return -1000000;
        }
    };

    inline std::string esc(const uint8_t *p, size_t n)
    {
        std::string s = "\"";
        for (size_t i = 0; i < n; i++)
        {
            char b[8];
            if (p[i] >= 0x20 && p[i] < 0x7f && p[i] != '"' && p[i] != '\\')
                snprintf(b, sizeof b, "%c", p[i]);
            else
                snprintf(b, sizeof b, "\\x%02x", p[i]);
            s += b;
        }
        return s + "\"";
    }
}
