// C11 (part 3) — LARGE arrays: qsort and bsearch on 255..1000 elements. An index, element count or byte
// count narrowed to 8 or 16 bits is invisible in the exhaustive part (length <= 8). rand() follows a few
// fixed strategies here (always 0, always RAND_MAX, alternating, a fixed LCG) instead of being enumerated.
#include "c11_common.hpp"
#include <csetjmp>
using namespace c11;

static Arena AR, KEY;
static const int LENS[5] = {255, 256, 257, 300, 1000};
static const int SZ[5] = {1, 4, 8, 17, 32};

// element (size >= 4): byte0 = key, bytes 1..2 = tag (original index, unique), byte j>=3 = f(tag, j); size 1: the key only
static void mk_elem(uint8_t *e, int size, int key, int tag)
{
    e[0] = (uint8_t)key;
    if (size == 1)
        return;
    e[1] = (uint8_t)tag;
    e[2] = (uint8_t)(tag >> 8);
    for (int j = 3; j < size; j++)
        e[j] = (uint8_t)(tag * 29 + j * 7 + 3);
}
static int tag_of(const uint8_t *e) { return e[1] | e[2] << 8; }

// ------------------------------------------------------------------ qsort
static struct
{
    uint8_t *base;
    int n, size, style, strat, pat;
    std::vector<uint8_t> keys;
    long ncmp, limit, nrand;
    unsigned lcg;
    bool bad;
    jmp_buf jb;
} Q;
static const char *PATN[5] = {"sorted", "reversed", "all equal", "two values", "sawtooth i mod 251"};
static const char *STRN[4] = {"rand()=0", "rand()=RAND_MAX", "rand() alternating 0/RAND_MAX", "rand() = fixed LCG"};

static std::string qd()
{
    return mc::fmt("qsort of %d elements of %d bytes, keys %s, %s", Q.n, Q.size, PATN[Q.pat], STRN[Q.strat]);
}
static int strat_rand()
{
    Q.nrand++;
    switch (Q.strat)
    {
    case 0: return 0;
    case 1: return 0x7fffffff;
    case 2: return (Q.nrand & 1) ? 0 : 0x7fffffff;
    default:
        Q.lcg = Q.lcg * 1103515245u + 12345u;
        return (int)((Q.lcg >> 16) & 0x7fff);
    }
}
static bool q_elem_ok(const uint8_t *e)
{
    if (Q.size == 1)
        return true;
    int tag = tag_of(e);
    if (tag >= Q.n || e[0] != Q.keys[tag])
        return false;
    for (int j = 3; j < Q.size; j++)
        if (e[j] != (uint8_t)(tag * 29 + j * 7 + 3))
            return false;
    return true;
}
static bool q_in_array(const void *p)
{
    const uint8_t *q = (const uint8_t *)p;
    return q >= Q.base && q < Q.base + (size_t)Q.n * Q.size && (size_t)(q - Q.base) % Q.size == 0;
}
static void q_fail(const char *sig, const char *what)
{
    mc::violation(sig, "%s: %s", qd().c_str(), what);
    Q.bad = true;
    longjmp(Q.jb, 1);
}
static int qcmp(const void *a, const void *b)
{
    if (++Q.ncmp > Q.limit)
        q_fail("C11.qsort.too_many_comparisons.large", "more comparator calls than 8*n*n+32 (does not terminate?)");
    bool ia = q_in_array(a), ib = q_in_array(b);
    const void *args[2] = {a, b};
    bool ins[2] = {ia, ib};
    for (int k = 0; k < 2; k++)
    {
        const uint8_t *q = (const uint8_t *)args[k];
        if (!ins[k] && q + Q.size > Q.base - 64 && q < Q.base + (size_t)Q.n * Q.size + 64)
            q_fail("C11.qsort.comparator_argument_outside_array.large", "a comparator argument points into or next to the array but is not an element");
    }
    if (!ia && !ib)
        q_fail("C11.qsort.comparator_arguments_both_outside.large", "neither comparator argument is an array element");
    for (int k = 0; k < 2; k++)
        if (!q_elem_ok((const uint8_t *)args[k]))
            q_fail("C11.qsort.comparator_sees_torn_element.large", "a comparator argument is not one of the original elements");
    int ka = *(const uint8_t *)a, kb = *(const uint8_t *)b;
    if (Q.style == 0)
        return (ka > kb) - (ka < kb);
    return ka == kb ? 0 : ka < kb ? INT32_MIN + kb : 1000 * (ka - kb);
}

// ------------------------------------------------------------------ bsearch
static struct
{
    const uint8_t *base;
    int n, size, style, want;
    bool distinct; // keys are the 16-bit value 2*index (size >= 4); otherwise the byte 2*floor(i*125/n) with duplicates
    const void *keyp;
    int ncalls;
} B;
static std::string bd()
{
    return mc::fmt("bsearch key %d in %d sorted elements of %d bytes (%s keys, %s comparator)", B.want, B.n, B.size, B.distinct ? "distinct 16-bit" : "duplicate-rich 8-bit",
                   B.style ? "key-first, int key" : "symmetric");
}
static int b_key(const uint8_t *e) { return B.distinct ? tag_of(e) * 2 : e[0]; }
static bool b_in_array(const void *p)
{
    const uint8_t *q = (const uint8_t *)p;
    return q >= B.base && q < B.base + (size_t)B.n * B.size && (size_t)(q - B.base) % B.size == 0;
}
static int bcmp_(const void *a, const void *b)
{
    B.ncalls++;
    const void *el;
    bool swapped = false;
    if (a == B.keyp)
        el = b;
    else if (b == B.keyp)
    {
        el = a;
        swapped = true;
    }
    else
    {
        mc::violation("C11.bsearch.comparator_without_key.large", "%s: neither comparator argument is the key object", bd().c_str());
        return 0;
    }
    if (!b_in_array(el))
    {
        mc::violation("C11.bsearch.comparator_called_outside_array.large", "%s: comparator called on base%+ld, the array has %d bytes", bd().c_str(),
                      (long)((const uint8_t *)el - B.base), B.n * B.size);
        return 0;
    }
    if (swapped && B.style == 1)
    {
        mc::violation("C11.bsearch.comparator_argument_order.large", "%s: comparator called as (element, key)", bd().c_str());
        return 0;
    }
    int ek = b_key((const uint8_t *)el);
    int r = (B.want > ek) - (B.want < ek);
    return swapped ? -r : r;
}

MC_INIT
{
    mc::add_check("qsort_large_arrays", [] {
        AR.init(0xA5);
        int c0 = mc::choose(5 * 5 * 5);
        int n = LENS[c0 / 25], size = SZ[(c0 / 5) % 5], pat = c0 % 5;
        Q.n = n;
        Q.size = size;
        Q.pat = pat;
        Q.keys.assign(n, 0);
        for (int i = 0; i < n; i++)
            Q.keys[i] = pat == 0 ? i * 250 / n : pat == 1 ? (n - 1 - i) * 250 / n : pat == 2 ? 7 : pat == 3 ? ((i * 7 % 3 == 0) ? 200 : 9) : i % 251;
        mc::describe("qsort of %d elements of %d bytes, keys %s: rand() always 0 / always RAND_MAX / alternating / fixed LCG x before/after guard x 2 comparator styles", n, size, PATN[pat]);
        mc::nontrivial();
        std::vector<uint8_t> orig((size_t)n * size);
        for (int i = 0; i < n; i++)
            mk_elem(orig.data() + (size_t)i * size, size, Q.keys[i], i);
        W = n * size + 640;
        rand_hook = strat_rand;
        uint64_t runs = 0;
        for (int strat = 0; strat < 4; strat++)
            for (int pl = AFTER; pl <= BEFORE; pl++)
                for (int style = 0; style < 2; style++)
                {
                    Q.strat = strat;
                    Q.style = style;
                    Q.ncmp = 0;
                    Q.nrand = 0;
                    Q.lcg = 12345;
                    Q.limit = 8L * n * n + 32;
                    Q.bad = false;
                    runs++;
                    Q.base = AR.put(orig.data(), orig.size(), pl);
                    std::string d = qd() + (pl == AFTER ? ", array ends at a guard page" : ", array starts after a guard page");
                    mc::crash_context("C11.qsort.memory.large");
                    bool ok = true;
                    if (setjmp(Q.jb) == 0)
                        ok = mc::guarded([&] { igc_qsort(Q.base, n, size, qcmp); });
                    mc::crash_context("C11.harness");
                    if (Q.bad)
                        continue;
                    if (!ok)
                    {
                        mc::violation(pl == AFTER ? "C11.qsort.access_past_end.large" : "C11.qsort.access_before_start.large", "%s: touched the inaccessible page next to the array", d.c_str());
                        continue;
                    }
                    for (int i = 0; i + 1 < n; i++)
                        if (Q.base[(size_t)i * size] > Q.base[(size_t)(i + 1) * size])
                        {
                            mc::violation("C11.qsort.not_sorted.large", "%s: result has key %d before key %d at index %d", d.c_str(), Q.base[(size_t)i * size], Q.base[(size_t)(i + 1) * size], i);
                            break;
                        }
                    if (size == 1)
                    {
                        long h[256] = {0};
                        for (int i = 0; i < n; i++)
                        {
                            h[orig[i]]++;
                            h[Q.base[i]]--;
                        }
                        for (int k = 0; k < 256; k++)
                            if (h[k])
                            {
                                mc::violation("C11.qsort.not_a_permutation.large", "%s: the number of elements with key %d changed by %ld", d.c_str(), k, -h[k]);
                                break;
                            }
                    }
                    else
                    {
                        std::vector<bool> seen(n, false);
                        for (int i = 0; i < n; i++)
                        {
                            const uint8_t *e = Q.base + (size_t)i * size;
                            int tag = tag_of(e);
                            if (tag >= n || seen[tag] || memcmp(e, orig.data() + (size_t)tag * size, size) != 0)
                            {
                                mc::violation("C11.qsort.not_a_permutation.large", "%s: element %d of the result is %s", d.c_str(), i,
                                              tag < n && seen[tag] ? "a duplicate of an earlier one" : "not an input element");
                                break;
                            }
                            seen[tag] = true;
                        }
                    }
                    long o = AR.dirty_outside(Q.base, (size_t)n * size);
                    if (o != -1000000)
                        mc::violation("C11.qsort.write_outside_array.large", "%s: byte at array%+ld was overwritten", d.c_str(), o);
                    mc::outcome(mc::fmt("p%d s%d %s", pat, strat, Q.ncmp > 20L * n ? "quadratic" : "nlogn"));
                }
        rand_hook = nullptr;
        W = W_SMALL;
        AR.wipe();
        mc::more_cases(runs - 1, runs - 1);
    });

    mc::add_check("bsearch_large_arrays", [] {
        AR.init(0xA5);
        KEY.init(0x5A);
        int c0 = mc::choose(5 * 5 * 2 * 2);
        int n = LENS[c0 / 20], size = SZ[(c0 / 4) % 5], pl = (c0 / 2) % 2, style = c0 % 2;
        mc::describe("bsearch in %d sorted elements of %d bytes, array %s a guard page, %s comparator: keys of the elements at 0,1,254..257,n-1 and absent keys, duplicate-rich and distinct keys", n, size,
                     pl == AFTER ? "ends at" : "starts after", style ? "key-first int" : "symmetric");
        mc::nontrivial();
        B.n = n;
        B.size = size;
        B.style = style;
        W = n * size + 640;
        std::vector<uint8_t> data((size_t)n * size);
        uint64_t calls = 0;
        for (int distinct = 0; distinct < (size >= 4 ? 2 : 1); distinct++)
        {
            B.distinct = distinct;
            for (int i = 0; i < n; i++)
                mk_elem(data.data() + (size_t)i * size, size, 2 * (i * 125 / n), i);
            B.base = AR.put(data.data(), data.size(), pl);
            std::vector<int> wants;
            static const int POS[7] = {0, 1, 254, 255, 256, 257, -1};
            for (int p : POS)
            {
                int idx = p < 0 ? n - 1 : p;
                if (idx >= n)
                    continue;
                int k = b_key(B.base + (size_t)idx * size);
                wants.push_back(k);
                wants.push_back(k + 1); // odd: absent
            }
            wants.push_back(-1);
            wants.push_back(distinct ? 2 * n : 250);
            wants.push_back(distinct ? 65536 + 2 * 3 : 256 + 4); // equal to a present key modulo 2^16 / 2^8
            for (int want : wants)
            {
                B.want = want;
                B.ncalls = 0;
                uint8_t kobj[32];
                memset(kobj, 0x77, sizeof kobj);
                if (style)
                    memcpy(kobj, &want, sizeof want);
                B.keyp = KEY.put(kobj, style ? (int)sizeof(int) : size, pl);
                void *r = nullptr;
                calls++;
                mc::crash_context("C11.bsearch.memory.large");
                bool ok = mc::guarded([&] { r = igc_bsearch(B.keyp, B.base, n, size, bcmp_); });
                mc::crash_context("C11.harness");
                std::string d = bd();
                if (!ok)
                {
                    mc::violation("C11.bsearch.access_outside_array.large", "%s: touched the inaccessible page next to the array or key", d.c_str());
                    continue;
                }
                bool present = false;
                for (int i = 0; i < n && !present; i++)
                    present = b_key(B.base + (size_t)i * size) == want;
                if (r && !b_in_array(r))
                    mc::violation("C11.bsearch.result_not_an_element.large", "%s: returned base%+ld", d.c_str(), (long)((uint8_t *)r - B.base));
                else if (r && b_key((uint8_t *)r) != want)
                    mc::violation("C11.bsearch.result_not_equal_to_key.large", "%s: returned element %ld with key %d", d.c_str(), (long)((uint8_t *)r - B.base) / size, b_key((uint8_t *)r));
                else if (!r && present)
                    mc::violation("C11.bsearch.missed_present_key.large", "%s: returned NULL although the key is in the array", d.c_str());
                else if (r && !present)
                    mc::violation("C11.bsearch.found_absent_key.large", "%s: returned non-null although the key is not in the array", d.c_str());
                if (memcmp(B.base, data.data(), data.size()) != 0 || AR.dirty_outside(B.base, data.size()) != -1000000)
                    mc::violation("C11.bsearch.array_modified.large", "%s: the (const) array or its surroundings were written", d.c_str());
                mc::outcome(mc::fmt("%d%d", r != nullptr, present));
            }
        }
        W = W_SMALL;
        AR.wipe();
        KEY.wipe();
        mc::more_cases(calls - 1, calls - 1);
    });
}
