// C11 (part 1) — strtol, strtoul, strtoll, strtoull, strtoimax, strtoumax, atoi, atol of the bundled
// libc against glibc's on the same text: value (incl. clamping to the type limits) and end pointer offset.
// errno disagreements are counted as information only: the statement does not list errno.
// Texts sit flush against an inaccessible page (after, then before) so reading past the NUL faults.
#include "c11_common.hpp"
#include <climits>
using namespace c11;

static Arena TI, TR; // text as seen by the implementation / by the reference
static int PL = AFTER;

enum
{
    STRTOL, STRTOUL, STRTOLL, STRTOULL, STRTOIMAX, STRTOUMAX, NFN
};
static const char *FN[NFN] = {"strtol", "strtoul", "strtoll", "strtoull", "strtoimax", "strtoumax"};

struct Res
{
    unsigned long long v;
    long end;
    bool erange;
};

// the caller's end variable holds this before EVERY call; ISO 7.22.1.4p5/p7: a pointer is always stored in *endptr
// when endptr is not null (nptr itself when no conversion is performed - empty or all-blank text included)
static char *const POISON = (char *)(uintptr_t)0x5A5A5A5A5A5AULL;
static const long NOT_WRITTEN = -7777777;
static Res ref_call(int f, const char *p, int base, bool with_end)
{
    char *e = POISON;
    char **ep = with_end ? &e : nullptr;
    unsigned long long v = 0;
    errno = 0;
    switch (f)
    {
    case STRTOL: v = (unsigned long long)strtol(p, ep, base); break;
    case STRTOUL: v = strtoul(p, ep, base); break;
    case STRTOLL: v = (unsigned long long)strtoll(p, ep, base); break;
    case STRTOULL: v = strtoull(p, ep, base); break;
    case STRTOIMAX: v = (unsigned long long)strtoimax(p, ep, base); break;
    case STRTOUMAX: v = strtoumax(p, ep, base); break;
    }
    if (with_end && e == POISON)
        mc::harness_error("the reference did not store *endptr");
    return Res{v, with_end ? (long)(e - p) : 0, errno == ERANGE};
}
static bool impl_call(int f, const char *p, int base, bool with_end, Res &out)
{
    char *e = POISON;
    char **ep = with_end ? &e : nullptr;
    unsigned long long v = 0;
    errno = 0;
    bool ok = mc::guarded([&] {
        switch (f)
        {
        case STRTOL: v = (unsigned long long)igc_strtol(p, ep, base); break;
        case STRTOUL: v = igc_strtoul(p, ep, base); break;
        case STRTOLL: v = (unsigned long long)igc_strtoll(p, ep, base); break;
        case STRTOULL: v = igc_strtoull(p, ep, base); break;
        case STRTOIMAX: v = (unsigned long long)igc_strtoimax(p, ep, base); break;
        case STRTOUMAX: v = igc_strtoumax(p, ep, base); break;
        }
    });
    out = Res{v, !with_end ? 0 : e == POISON ? NOT_WRITTEN : (long)(e - p), errno == ERANGE};
    return ok;
}

static bool c_isspace(int c) { return c == ' ' || (c >= '\t' && c <= '\r'); }
static bool c_isxdigit(int c) { return (c >= '0' && c <= '9') || (c >= 'a' && c <= 'f') || (c >= 'A' && c <= 'F'); }

// input class, part of the signature
static const char *classify(const uint8_t *t, size_t len, int base, const Res &ref)
{
    size_t i = 0;
    while (i < len && c_isspace(t[i]))
        i++;
    if (i < len && (t[i] == '+' || t[i] == '-'))
        i++;
    bool pfx = (base == 0 || base == 16) && i + 1 < len && t[i] == '0' && (t[i + 1] == 'x' || t[i + 1] == 'X');
    if (pfx && !(i + 2 < len && c_isxdigit(t[i + 2])))
        return "0x_without_hex_digit";
    if (ref.erange)
        return "overflow";
    if (ref.end == 0)
        return "no_digits";
    return "";
}

static uint64_t g_calls, g_excluded, g_erange_missing, g_erange_extra;
static uint32_t g_seen; // outcome classes seen in this case

static void sigv(int f, const char *kind, const char *cls, const uint8_t *t, size_t len, int base, const char *fmt, ...)
    __attribute__((format(printf, 7, 8)));
static void sigv(int f, const char *kind, const char *cls, const uint8_t *t, size_t len, int base, const char *fmt, ...)
{
    char m[400];
    va_list ap;
    va_start(ap, fmt);
    vsnprintf(m, sizeof m, fmt, ap);
    va_end(ap);
    std::string sig = std::string("C11.") + (f >= 0 ? FN[f] : f == -1 ? "atol" : "atoi") + "." + kind;
    if (cls && *cls)
        sig += std::string(".") + cls;
    mc::violation(sig, "%s(%s, base %d) [text %s a guard page]: %s", f >= 0 ? FN[f] : f == -1 ? "atol" : "atoi", esc(t, len).c_str(), base,
                  PL == AFTER ? "ends at" : "starts after", m);
}

// one text (NUL-free bytes t[0..len) + terminator), one base, all six strto*; with_end=false passes endptr=NULL
static void check_text(const uint8_t *t, size_t len, int base, bool with_end = true)
{
    uint8_t buf[1400];
    memcpy(buf, t, len);
    buf[len] = 0;
    const char *pi = (const char *)TI.put(buf, len + 1, PL), *pr = (const char *)TR.put(buf, len + 1, PL);
    for (int f = 0; f < NFN; f++)
    {
        Res r = ref_call(f, pr, base, with_end), g;
        const char *cls = classify(t, len, base, r);
        g_calls++;
        if (!impl_call(f, pi, base, with_end, g))
        {
            sigv(f, PL == AFTER ? "read_past_terminator" : "read_before_start", cls, t, len, base, "touched the inaccessible page next to the text");
            continue;
        }
        if (g.v != r.v)
            sigv(f, "value", cls, t, len, base, "returned %lld (0x%llx), ISO/glibc: %lld (0x%llx)", (long long)g.v, g.v, (long long)r.v, r.v);
        if (with_end && g.end == NOT_WRITTEN)
            sigv(f, "endptr_not_written", cls, t, len, base, "returned without storing *endptr (the caller's variable still holds its previous value); ISO/glibc: nptr+%ld", r.end);
        else if (with_end && g.end != r.end)
            sigv(f, "endptr", cls, t, len, base, "*endptr = nptr+%ld, ISO/glibc: nptr+%ld", g.end, r.end);
        // errno is not among the statement's observables (value, end pointer, clamping): information only
        if (r.erange && !g.erange)
            g_erange_missing++;
        if (!r.erange && g.erange)
            g_erange_extra++;
        g_seen |= 1u << ((r.erange ? 1 : 0) + (r.end == 0 ? 2 : 0) + ((long long)r.v < 0 ? 4 : 0));
    }
    if (memcmp(pi, buf, len + 1) != 0 || TI.dirty_outside((const uint8_t *)pi, len + 1) != -1000000)
        sigv(0, "text_modified", "", t, len, base, "a strto* wrote to or around its (const) text");
}

// atoi/atol: ISO defines them as (int)strtol(s,NULL,10) / strtol(s,NULL,10) and leaves unrepresentable results undefined
static void check_ato(const uint8_t *t, size_t len)
{
    uint8_t buf[1400];
    memcpy(buf, t, len);
    buf[len] = 0;
    const char *pi = (const char *)TI.put(buf, len + 1, PL), *pr = (const char *)TR.put(buf, len + 1, PL);
    errno = 0;
    long want = strtol(pr, nullptr, 10);
    if (errno == ERANGE)
    {
        g_excluded += 2;
        return;
    }
    long gl = 0;
    int gi = 0;
    g_calls += 1;
    if (!mc::guarded([&] { gl = igc_atol(pi); }))
        sigv(-1, PL == AFTER ? "read_past_terminator" : "read_before_start", "", t, len, 10, "touched the inaccessible page next to the text");
    else if (gl != want)
        sigv(-1, "value", "", t, len, 10, "returned %ld, ISO/glibc: %ld", gl, want);
    if (want < INT_MIN || want > INT_MAX)
    {
        g_excluded++;
        return;
    }
    g_calls += 1;
    if (!mc::guarded([&] { gi = igc_atoi(pi); }))
        sigv(-2, PL == AFTER ? "read_past_terminator" : "read_before_start", "", t, len, 10, "touched the inaccessible page next to the text");
    else if (gi != (int)want)
        sigv(-2, "value", "", t, len, 10, "returned %d, ISO/glibc: %d", gi, (int)want);
}

static void begin_case()
{
    TI.init(0xA5);
    TR.init(0xA5);
    g_calls = g_excluded = g_erange_missing = g_erange_extra = 0;
    g_seen = 0;
}
static void end_case()
{
    PL = AFTER;
    if (g_calls)
        mc::more_cases(g_calls - 1, g_calls - 1);
    if (g_excluded)
        mc::count("ato_calls_excluded_result_unrepresentable_undefined_by_iso", (long)g_excluded);
    if (g_erange_missing)
        mc::count("info_clamped_without_ERANGE_where_glibc_sets_it_not_checked", (long)g_erange_missing);
    if (g_erange_extra)
        mc::count("info_ERANGE_set_where_glibc_does_not_not_checked", (long)g_erange_extra);
    for (int b = 0; b < 8; b++)
        if (g_seen >> b & 1)
            mc::outcome(mc::fmt("strto:%d", b));
}

static std::vector<int> bases()
{
    std::vector<int> b = {0, 2, 8, 10, 16, 36};
    if (mc::thorough())
        for (int k = 3; k <= 35; k++)
            if (k != 8 && k != 10 && k != 16)
                b.push_back(k);
    return b;
}

static const uint8_t SY[18] = {' ', '\t', '\n', '+', '-', '0', '1', '7', '8', '9', 'a', 'f', 'g', 'x', 'X', 'z', 'Z', 0xFF};

// render v in base b
static std::string render(unsigned __int128 v, int b, bool upper)
{
    std::string s;
    if (v == 0)
        s = "0";
    while (v)
    {
        int d = (int)(v % b);
        s.insert(s.begin(), (char)(d < 10 ? '0' + d : (upper ? 'A' : 'a') + d - 10));
        v /= b;
    }
    return s;
}

MC_INIT
{
    // (1) every text of length <= 4 (thorough: <= 5 for bases 0, 10, 16) over 18 symbols x every base x 6 entry points + atoi/atol
    mc::add_check("strto_all_short_texts", [] {
        begin_case();
        int c0 = mc::choose(1 + 18 + 324);
        uint8_t t[8];
        size_t pl = c0 == 0 ? 0 : c0 <= 18 ? 1 : 2;
        if (pl == 1)
            t[0] = SY[c0 - 1];
        if (pl == 2)
        {
            t[0] = SY[(c0 - 19) / 18];
            t[1] = SY[(c0 - 19) % 18];
        }
        std::vector<int> bs = bases();
        int maxsuf = pl < 2 ? 0 : mc::thorough() ? 3 : 2;
        mc::describe("all texts %s + suffix of length 0..%d over {sp,tab,nl,+,-,0,1,7,8,9,a,f,g,x,X,z,Z,ff}, %zu bases, strtol strtoul strtoll strtoull strtoimax strtoumax atoi atol, before/after guard",
                     esc(t, pl).c_str(), maxsuf, bs.size());
        mc::nontrivial();
        for (PL = AFTER; PL <= BEFORE; PL++)
            for (int sl = 0; sl <= maxsuf; sl++)
            {
                int cnt = 1;
                for (int k = 0; k < sl; k++)
                    cnt *= 18;
                for (int code = 0; code < cnt; code++)
                {
                    int x = code;
                    for (int k = sl - 1; k >= 0; k--)
                    {
                        t[pl + k] = SY[x % 18];
                        x /= 18;
                    }
                    if (sl == 3)
                    { // length 5 only for the bases with prefix rules
                        check_text(t, pl + sl, 0);
                        check_text(t, pl + sl, 10);
                        check_text(t, pl + sl, 16);
                    }
                    else
                        for (int b : bs)
                        {
                            check_text(t, pl + sl, b);
                            check_text(t, pl + sl, b, false); // endptr == NULL
                        }
                    check_ato(t, pl + sl);
                }
            }
        end_case();
    });

    // (2) composed texts: white space, sign(s), prefix forms, 0..2 digits, trailing character; also with endptr == NULL
    mc::add_check("strto_structured_texts", [] {
        begin_case();
        static const char *WS[] = {"", " ", "\t\n\v\f\r "};
        static const char *SG[] = {"", "+", "-", "+-", "--"};
        static const char *PF[] = {"", "0", "0x", "0X", "00x", "0x0x", "0xx"};
        static const char *TL[] = {"", "x", " ", "g", "-", "1", "\xff"};
        static const char DG[] = "01789afgzZ";
        int c0 = mc::choose(3 * 5 * 7);
        std::string head = std::string(WS[c0 / 35]) + SG[(c0 / 7) % 5] + PF[c0 % 7];
        std::vector<int> bs = bases();
        mc::describe("texts %s + 0..2 digits of {0,1,7,8,9,a,f,g,z,Z} + one of 7 tails, %zu bases, 6 strto* (with and without endptr) + atoi/atol, before/after guard",
                     esc((const uint8_t *)head.data(), head.size()).c_str(), bs.size());
        mc::nontrivial();
        for (PL = AFTER; PL <= BEFORE; PL++)
            for (int nd = 0; nd <= 2; nd++)
                for (int code = 0; code < (nd == 0 ? 1 : nd == 1 ? 10 : 100); code++)
                    for (const char *tl : TL)
                    {
                        std::string s = head;
                        if (nd >= 1)
                            s += DG[nd == 1 ? code : code / 10];
                        if (nd == 2)
                            s += DG[code % 10];
                        s += tl;
                        for (int b : bs)
                        {
                            check_text((const uint8_t *)s.data(), s.size(), b, true);
                            check_text((const uint8_t *)s.data(), s.size(), b, false);
                        }
                        check_ato((const uint8_t *)s.data(), s.size());
                    }
        end_case();
    });

    // (3) per base and type limit: limit-1, limit, limit+1, limit*base, limit*base+base-1, in both letter cases,
    //     with sign, leading zeros / 0x prefix, leading space, and followed by nothing / one more digit / a non-digit
    mc::add_check("strto_overflow_boundaries", [] {
        begin_case();
        std::vector<int> bs = {2, 8, 10, 16, 36, 3};
        if (mc::thorough())
        {
            bs.clear();
            for (int k = 2; k <= 36; k++)
                bs.push_back(k);
        }
        static const unsigned __int128 LIM[6] = {((unsigned __int128)1 << 31) - 1, (unsigned __int128)1 << 31, ((unsigned __int128)1 << 32) - 1,
                                                 ((unsigned __int128)1 << 63) - 1, (unsigned __int128)1 << 63, ((unsigned __int128)1 << 64) - 1};
        static const char *LN[6] = {"INT_MAX", "2^31", "UINT_MAX", "LONG_MAX", "2^63", "ULONG_MAX"};
        static const char *SG[3] = {"", "+", "-"};
        int c0 = mc::choose((int)bs.size() * 6 * 3);
        int b = bs[c0 / 18], li = (c0 / 3) % 6, sg = c0 % 3;
        mc::describe("base %d, values around %s (x-1, x, x+1, x*base, x*base+base-1), sign \"%s\", lower/upper case digits, prefix none/0/000../0x, optional leading space, tail none/digit/non-digit; base argument %d and 0 where the prefix selects it",
                     b, LN[li], SG[sg], b);
        mc::nontrivial();
        unsigned __int128 L = LIM[li];
        unsigned __int128 vals[5] = {L - 1, L, L + 1, L * b, L * b + (b - 1)};
        for (PL = AFTER; PL <= BEFORE; PL++)
            for (auto v : vals)
                for (int up = 0; up < 2; up++)
                    for (int pf = 0; pf < 4; pf++)
                        for (int ws = 0; ws < 2; ws++)
                            for (int tl = 0; tl < 4; tl++)
                            {
                                if (pf == 3 && b != 16)
                                    continue;
                                std::string s = ws ? " " : "";
                                s += SG[sg];
                                s += pf == 1 ? "0" : pf == 2 ? "000000000000000000000" : pf == 3 ? (up ? "0X" : "0x") : "";
                                s += render(v, b, up);
                                s += tl == 1 ? "0" : tl == 2 ? "!" : tl == 3 ? std::string(1, (char)(b < 10 ? '0' + b : b < 36 ? 'a' + b - 10 : '{')) : "";
                                if (s.size() > 90)
                                    continue;
                                check_text((const uint8_t *)s.data(), s.size(), b);
                                check_text((const uint8_t *)s.data(), s.size(), b, false); // endptr == NULL
                                // base 0 when the text itself selects the same base
                                if ((b == 16 && pf == 3) || (b == 8 && (pf == 1 || pf == 2)) || (b == 10 && pf == 0))
                                    check_text((const uint8_t *)s.data(), s.size(), 0);
                                if (b == 10)
                                    check_ato((const uint8_t *)s.data(), s.size());
                            }
        end_case();
    });

    // (4) LONG texts: 255..300 digits / leading spaces / leading zeros (a digit counter or offset narrowed to 8 bits
    //     is invisible in short texts): overflow clamping with the end pointer after the last digit, values after
    //     300 leading zeros or white-space characters
    mc::add_check("strto_long_texts", [] {
        begin_case();
        static const int DS[4] = {255, 256, 257, 300};
        static const char *TL[3] = {"", "!", "g"};
        int c0 = mc::choose(4 * 12 * 3);
        int D = DS[c0 / 36], form = (c0 / 3) % 12;
        const char *tl = TL[c0 % 3];
        std::string z(D, '0'), sp(D, ' '), s;
        switch (form)
        {
        case 0: s = std::string(D, '9'); break;
        case 1: s = "-" + std::string(D, '9'); break;
        case 2: s = "1" + std::string(D - 1, '0'); break;
        case 3: s = z + "777"; break;
        case 4: s = sp + "123"; break;
        case 5: s = sp + "-" + z + "9223372036854775808"; break;
        case 6: s = "0x" + std::string(D, 'f'); break;
        case 7: s = "0x" + z + "7fffffffffffffff"; break;
        case 8: s = std::string(D, '1'); break;
        case 9: s = std::string(D, 'z'); break;
        case 10: s = z + "x1f"; break;
        default: s = std::string(D / 2, '\t') + std::string(D - D / 2, '\n') + "+" + z + "18446744073709551615"; break;
        }
        s += tl;
        mc::describe("text of %zu characters (%d-fold run, form %d, tail \"%s\"), bases 0,2,8,10,16,36, 6 strto* with and without endptr + atoi/atol, before/after guard", s.size(), D, form, tl);
        mc::nontrivial();
        W = 1024;
        for (PL = AFTER; PL <= BEFORE; PL++)
        {
            for (int b : {0, 2, 8, 10, 16, 36})
            {
                check_text((const uint8_t *)s.data(), s.size(), b, true);
                check_text((const uint8_t *)s.data(), s.size(), b, false);
            }
            check_ato((const uint8_t *)s.data(), s.size());
        }
        W = W_SMALL;
        TI.wipe();
        TR.wipe();
        end_case();
    });

    // (5) atoi / atol at the IN-RANGE limits (out-of-range texts are undefined by ISO and stay excluded): INT_MIN, INT_MIN+1,
    //     INT_MAX-1, INT_MAX for both, LONG_MIN, LONG_MIN+1, LONG_MAX-1, LONG_MAX for atol; leading white space, explicit '+',
    //     leading zeros, trailing junk; reference: glibc's atoi / atol on the same text. LONG_MIN is the one in-range text
    //     whose magnitude is not representable as a positive long.
    mc::add_check("ato_in_range_boundaries", [] {
        begin_case();
        static const long VAL[11] = {INT_MIN, (long)INT_MIN + 1, -1, 0, 1, INT_MAX - 1, INT_MAX, LONG_MIN, LONG_MIN + 1, LONG_MAX - 1, LONG_MAX};
        static const char *VN[11] = {"INT_MIN", "INT_MIN+1", "-1", "0", "1", "INT_MAX-1", "INT_MAX", "LONG_MIN", "LONG_MIN+1", "LONG_MAX-1", "LONG_MAX"};
        static const char *TL[8] = {"", " ", "x", ".5", "-", "+1", "L", "\xff"};
        int c0 = mc::choose(11 * 5 * 4);
        int vi = c0 / 20, wi = (c0 / 4) % 5, zi = c0 % 4;
        long v = VAL[vi];
        std::string ws = wi == 0 ? "" : wi == 1 ? " " : wi == 2 ? "\t" : wi == 3 ? " \t\n\v\f\r " : std::string(300, ' ');
        std::string zs = zi == 0 ? "" : zi == 1 ? "0" : zi == 2 ? "000" : std::string(300, '0');
        std::string mag = render(v < 0 ? (unsigned __int128)(-(__int128)v) : (unsigned __int128)v, 10, false);
        mc::describe("atoi/atol of %s with %zu leading white-space characters, %zu leading zeros, sign '-' or ''/'+', 8 tails, before/after guard", VN[vi], ws.size(), zs.size());
        mc::nontrivial();
        W = 1024;
        bool fits_int = v >= INT_MIN && v <= INT_MAX;
        const char *cls = (v == LONG_MIN || v == INT_MIN) ? "most_negative" : (vi == 2 || vi == 3 || vi == 4) ? "small" : "at_limit";
        for (PL = AFTER; PL <= BEFORE; PL++)
            for (int sg = 0; sg < (v < 0 ? 1 : 2); sg++)
                for (const char *tl : TL)
                {
                    std::string t = ws + (v < 0 ? "-" : sg ? "+" : "") + zs + mag + tl;
                    const char *pi = (const char *)TI.put(t.c_str(), t.size() + 1, PL), *pr = (const char *)TR.put(t.c_str(), t.size() + 1, PL);
                    const uint8_t *tt = (const uint8_t *)t.data();
                    long wl = atol(pr), gl = 0;
                    int gi = 0;
                    g_calls++;
                    if (wl != v)
                        mc::harness_error("reference atol disagrees with the rendered value");
                    if (!mc::guarded([&] { gl = igc_atol(pi); }))
                        sigv(-1, PL == AFTER ? "read_past_terminator" : "read_before_start", cls, tt, t.size(), 10, "touched the inaccessible page next to the text");
                    else if (gl != wl)
                        sigv(-1, "value", cls, tt, t.size(), 10, "returned %ld, ISO/glibc: %ld (%s)", gl, wl, VN[vi]);
                    if (!fits_int)
                    {
                        g_excluded++;
                        continue;
                    }
                    int wi2 = atoi(pr);
                    g_calls++;
                    if (!mc::guarded([&] { gi = igc_atoi(pi); }))
                        sigv(-2, PL == AFTER ? "read_past_terminator" : "read_before_start", cls, tt, t.size(), 10, "touched the inaccessible page next to the text");
                    else if (gi != wi2)
                        sigv(-2, "value", cls, tt, t.size(), 10, "returned %d, ISO/glibc: %d (%s)", gi, wi2, VN[vi]);
                    g_seen |= 1u << (v < 0 ? 4 : 0);
                }
        W = W_SMALL;
        TI.wipe();
        TR.wipe();
        end_case();
    });

    // (6) EVERY byte value after a digit (and alone, after a sign, between digits) for every function and EVERY base 0,2..36:
    //     the digit decoder must stop at each of the 256-36 bytes that are not digits of the base - punctuation between
    //     'Z' and 'a', '@', '/', ':', '`', '{', high-bit bytes - not only at the ones in the text alphabet
    mc::add_check("strto_every_byte_after_digit", [] {
        begin_case();
        int c0 = mc::choose(255);
        uint8_t b = (uint8_t)(c0 + 1);
        mc::describe("byte 0x%02x alone, after a sign, after 0/1/9/z, between two digits, after 0x: bases 0 and 2..36, 6 strto* with and without endptr + atoi/atol, before/after guard", b);
        mc::nontrivial();
        static const char *PRE[8] = {"", "-", "0", "1", "9", "z", "0x", "10"};
        for (PL = AFTER; PL <= BEFORE; PL++)
            for (const char *pre : PRE)
                for (int tail = 0; tail < 2; tail++)
                {
                    uint8_t t[8];
                    size_t l = strlen(pre);
                    memcpy(t, pre, l);
                    t[l++] = b;
                    if (tail)
                        t[l++] = '1';
                    for (int base = 0; base <= 36; base++)
                    {
                        if (base == 1)
                            continue;
                        check_text(t, l, base, true);
                        check_text(t, l, base, false);
                    }
                    check_ato(t, l);
                }
        end_case();
    });
}
