# source me.  igc_compile <outdir> <file.c>...  compiles the repository's compat-libc
# sources against the host headers + a two-file shim, then prefixes every symbol
# with igc_ (so igc_memcpy ... are the repository's functions and the unprefixed
# names stay glibc's = the reference) and maps the host-owned references back.
igc_shim() { # $1 = dir
    mkdir -p "$1"
    echo "#include \"$REPO/compat/libc/include/ctype.h\"" > "$1/ctype.h"
    printf '#include_next <errno.h>\n#include <igris/util/errno.h>\n' > "$1/errno.h"
}
# $IGC_KEEP: space separated list of symbols that must stay the host's
igc_one() { # $1 = shim dir, $2 = out.o, $3 = src.c
    gcc -c -O2 -g -w -fno-builtin -fno-tree-loop-distribute-patterns -fstack-protector-strong -fexceptions \
        -U_FORTIFY_SOURCE -D_GNU_SOURCE -D'__weak_alias(a,b)=' -isystem "$1" -I"$REPO" "$3" -o "$2" || return 1
    objcopy --prefix-symbols=igc_ "$2" || return 1
    local args=()
    for s in $IGC_KEEP $IGC_KEEP_EXTRA; do args+=(--redefine-sym "igc_$s=$s"); done
    objcopy "${args[@]}" "$2"
}
