#!/bin/bash
# C11: the repository's strto*/ato*/qsort/bsearch sources compiled against the host headers + shim and
# prefixed igc_ (glibc's unprefixed functions are the reference). igc_rand is a choice point in the harness;
# references the stdlib objects do not define themselves (qsort's memcpy - the repository's memcpy is C08's subject) bind to the host.
set -e
. $MC/par.sh
H=$VERIF/harness/c11
. $H/igc_objs.sh
igc_shim $BUILD/shim
OBJS=""
for f in $REPO/compat/libc/stdlib/{strtol,strtoul,strtoll,strtoull,atol,qsort,bsearch}.c $REPO/compat/libc/inttypes/{strtoimax,strtoumax}.c; do
    o=$BUILD/igc_$(basename $f .c).o
    par igc_one $BUILD/shim $o $f
    OBJS="$OBJS $o"
done
# BUILD MATRIX: the same sources the way the project's own build compiles them (make.py: plain gcc -O3, no -fno-builtin;
# also -O2 and -Os), with plain char unsigned (ARM/PowerPC/RISC-V), and by the other compiler. Each variant is linked with
# the same harness objects into its own executable and re-runs a cheap selection of the sub-checks.
SRCS="$REPO/compat/libc/stdlib/strtol.c $REPO/compat/libc/stdlib/strtoul.c $REPO/compat/libc/stdlib/strtoll.c $REPO/compat/libc/stdlib/strtoull.c $REPO/compat/libc/stdlib/atol.c $REPO/compat/libc/stdlib/qsort.c $REPO/compat/libc/stdlib/bsearch.c $REPO/compat/libc/inttypes/strtoimax.c $REPO/compat/libc/inttypes/strtoumax.c"
variant() { # name cc opt mode cflags
    local v=$1 f o
    for f in $SRCS; do
        o=$BUILD/${v}_$(basename $f .c).o
        IGC_CC=$2 IGC_OPT=$3 IGC_MODE="$4" IGC_CFLAGS="$5" par igc_one $BUILD/shim $o $f
        eval "VOBJS_$v=\"\$VOBJS_$v $o\""
    done
}
variant o2n gcc -O2 "" ""
variant osn gcc -Os "" ""
variant o3u gcc -O3 "" "-funsigned-char"
variant clang clang -O2 "-fno-builtin" ""
# rand.c is anchored only as qsort's pivot source; it must still compile
par igc_one $BUILD/shim $BUILD/igc_rand_unused.o $REPO/compat/libc/stdlib/rand.c
CXX="g++ -std=c++20 -O2 -g -fno-builtin -I$MC -I$H"
for t in c11_strto c11_sort c11_large; do par $CXX -c $H/$t.cpp -o $BUILD/$t.o; done
par g++ -std=c++20 -O2 -c -I$MC $MC/mc.cpp -o $BUILD/mc.o
parwait
igc_resolve $OBJS   # qsort's memcpy (and anything else the repository's stdlib objects do not define) binds to the host
for fn in strtol strtoul strtoll strtoull strtoimax strtoumax atoi atol qsort bsearch; do
    nm $OBJS | grep -q " [TW] igc_$fn\$" || { echo "igc_$fn is not defined by the repository sources"; exit 1; }
done
g++ $BUILD/c11_strto.o $BUILD/c11_sort.o $BUILD/c11_large.o $OBJS $BUILD/mc.o -o $BUILD/c11
echo "stdlib $BUILD/c11" > $BUILD/runs.txt
SEL=strto_overflow_boundaries,strto_long_texts,strto_every_byte_after_digit,ato_in_range_boundaries,qsort_large_arrays,bsearch_large_arrays,bsearch_all_sorted_arrays
for v in o2n osn o3u clang; do
    eval "vo=\$VOBJS_$v"
    igc_resolve $vo
    g++ $BUILD/c11_strto.o $BUILD/c11_sort.o $BUILD/c11_large.o $vo $BUILD/mc.o -o $BUILD/c11_$v
    echo "stdlib_$v $BUILD/c11_$v --only $SEL" >> $BUILD/runs.txt
done
