// C11 (part 2) — qsort with EVERY answer of rand() enumerated (igc_rand is a choice point) and bsearch
// on every sorted array, on the repository's object code, arrays flush against an inaccessible page.
#include "c11_common.hpp"
#include <csetjmp>
using namespace c11;

static Arena AR, KEY; // the array; bsearch's key object

// element: byte0 = key<<4 | tag (tag = original index, unique), byte j>0 = f(tag, j): a torn or mixed-up element is recognisable
static void mk_elem(uint8_t *e, int size, int key, int tag)
{
    e[0] = (uint8_t)(key << 4 | tag);
    for (int j = 1; j < size; j++)
        e[j] = (uint8_t)(tag * 29 + j * 7 + 3);
}
static bool elem_ok(const uint8_t *e, int size, int ntags)
{
    int tag = e[0] & 15;
    if (tag >= ntags)
        return false;
    for (int j = 1; j < size; j++)
        if (e[j] != (uint8_t)(tag * 29 + j * 7 + 3))
            return false;
    return true;
}

// ------------------------------------------------------------------ qsort
static struct
{
    uint8_t *base;
    int n, size, style;
    long ncmp, limit;
    int keys[10];
    bool bad;
    jmp_buf jb;
    int nrand;
} Q;

static void qdesc(char *out, size_t cap)
{
    std::string k;
    for (int i = 0; i < Q.n; i++)
        k += (char)('0' + Q.keys[i]);
    snprintf(out, cap, "qsort keys [%s] element size %d", k.c_str(), Q.size);
}

extern "C" int igc_rand(void)
{
    // qsort uses rand() % nmemb with nmemb <= n: the answers 0..n-1 reach every pivot of every sub-array
    if (rand_hook)
        return rand_hook();
    Q.nrand++;
    int r = mc::choose(Q.n < 1 ? 1 : Q.n);
    // a second representative of each residue class with the high bits set, to exercise the int -> size_t conversion
    return r;
}

static bool in_array(const void *p)
{
    const uint8_t *q = (const uint8_t *)p;
    return q >= Q.base && q < Q.base + (size_t)Q.n * Q.size && (size_t)(q - Q.base) % Q.size == 0;
}
static int qcmp(const void *a, const void *b)
{
    char d[96];
    if (++Q.ncmp > Q.limit)
    {
        qdesc(d, sizeof d);
        mc::violation("C11.qsort.too_many_comparisons", "%s: more than %ld comparator calls (does not terminate?)", d, Q.limit);
        Q.bad = true;
        longjmp(Q.jb, 1);
    }
    bool ia = in_array(a), ib = in_array(b);
    // the other legal argument is qsort's private copy of the pivot: outside the array, and a whole, valid element
    const void *args[2] = {a, b};
    bool ins[2] = {ia, ib};
    for (int k = 0; k < 2; k++)
    {
        const uint8_t *q = (const uint8_t *)args[k];
        if (ins[k])
            continue;
        bool overlaps = q + Q.size > Q.base - 64 && q < Q.base + (size_t)Q.n * Q.size + 64;
        if (overlaps)
        {
            qdesc(d, sizeof d);
            mc::violation("C11.qsort.comparator_argument_outside_array", "%s: comparator argument %d points to array%+ld (not an element)", d, k + 1, (long)(q - Q.base));
            Q.bad = true;
            longjmp(Q.jb, 1);
        }
    }
    if (!ia && !ib)
    {
        qdesc(d, sizeof d);
        mc::violation("C11.qsort.comparator_arguments_both_outside", "%s: neither comparator argument is an array element", d);
        Q.bad = true;
        longjmp(Q.jb, 1);
    }
    for (int k = 0; k < 2; k++)
        if (!elem_ok((const uint8_t *)args[k], Q.size, Q.n))
        {
            qdesc(d, sizeof d);
            mc::violation("C11.qsort.comparator_sees_torn_element", "%s: comparator argument %d is not one of the original elements", d, k + 1);
            Q.bad = true;
            longjmp(Q.jb, 1);
        }
    int ka = *(const uint8_t *)a >> 4, kb = *(const uint8_t *)b >> 4;
    if (Q.style == 0)
        return (ka > kb) - (ka < kb);
    return ka == kb ? 0 : ka < kb ? INT32_MIN + kb : 1000 * (ka - kb); // any negative / positive value is allowed
}

// ------------------------------------------------------------------ bsearch
static struct
{
    const uint8_t *base;
    int n, size, want, style;
    const void *keyp;
    int ncalls;
    int keys[10];
} B;

static void bdesc(char *out, size_t cap)
{
    std::string k;
    for (int i = 0; i < B.n; i++)
        k += (char)('0' + B.keys[i]);
    snprintf(out, cap, "bsearch key %d in sorted [%s] element size %d (%s comparator)", B.want, k.c_str(), B.size,
             B.style ? "key-first, int key" : "symmetric");
}
static bool b_in_array(const void *p)
{
    const uint8_t *q = (const uint8_t *)p;
    return q >= B.base && q < B.base + (size_t)B.n * B.size && (size_t)(q - B.base) % B.size == 0;
}
// style 0: key object has the element layout; accepts (key, elem) in either order but exactly one must be the key object
//          and the other an element of the array. style 1: ISO order (key first), key is an int - the usual heterogeneous use.
static int bcmp_(const void *a, const void *b)
{
    char d[128];
    B.ncalls++;
    const void *el;
    bool swapped = false;
    if (a == B.keyp)
        el = b;
    else if (b == B.keyp)
    {
        el = a;
        swapped = true;
    }
    else
    {
        bdesc(d, sizeof d);
        mc::violation("C11.bsearch.comparator_without_key", "%s: neither comparator argument is the key object", d);
        return 0;
    }
    if (!b_in_array(el))
    {
        bdesc(d, sizeof d);
        mc::violation(B.n == 0 ? "C11.bsearch.comparator_called_outside_array.empty_array" : "C11.bsearch.comparator_called_outside_array", "%s: comparator called on base%+ld, the array has %d bytes", d,
                      (long)((const uint8_t *)el - B.base), B.n * B.size);
        return 0; // do not dereference
    }
    if (swapped && B.style == 1)
    {
        bdesc(d, sizeof d);
        mc::violation("C11.bsearch.comparator_argument_order", "%s: comparator called as (element, key); ISO 7.22.5.1: the key object first, the array element second", d);
        return 0;
    }
    int ek = *(const uint8_t *)el >> 4;
    int r = (B.want > ek) - (B.want < ek); // key relative to element
    return swapped ? -r : r;
}

MC_INIT
{
    // (1) qsort: every array of length 0..6 (8) over keys {0,1,2} x element size x guard placement x comparator style
    //     x every pivot sequence
    mc::add_check("qsort_all_arrays_all_pivots", [] {
        AR.init(0xA5);
        // (array length, array code, element size): EVERY size 1..32 at every length (`full` = longest length that gets
        // all sizes; longer arrays, if the length bound is ever raised above it, get {1,2,3,4,8,12,17,31,32})
        struct Combo
        {
            uint8_t n, size;
            uint16_t code;
        };
        static std::vector<Combo> combos;
        if (combos.empty())
        {
            int N = mc::thorough() ? 8 : 6, full = mc::thorough() ? 8 : 6;
            static const int RED[9] = {1, 2, 3, 4, 8, 12, 17, 31, 32};
            for (int n = 0, pw = 1; n <= N; n++, pw *= 3)
                for (int code = 0; code < pw; code++)
                {
                    if (n <= full)
                        for (int sz = 1; sz <= 32; sz++)
                            combos.push_back(Combo{(uint8_t)n, (uint8_t)sz, (uint16_t)code});
                    else
                        for (int sz : RED)
                            combos.push_back(Combo{(uint8_t)n, (uint8_t)sz, (uint16_t)code});
                }
        }
        int c0 = mc::choose((int)combos.size() * 4);
        const Combo &cb = combos[c0 / 4];
        int ai = cb.code, size = cb.size, pl = (c0 / 2) % 2, style = c0 % 2, n = cb.n;
        Q.n = n;
        Q.size = size;
        Q.style = style;
        Q.ncmp = 0;
        Q.limit = 8L * n * n + 32;
        Q.bad = false;
        Q.nrand = 0;
        uint8_t orig[10 * 32];
        for (int i = n - 1, x = ai; i >= 0; i--, x /= 3)
            Q.keys[i] = x % 3;
        for (int i = 0; i < n; i++)
            mk_elem(orig + i * size, size, Q.keys[i], i);
        char d[96];
        qdesc(d, sizeof d);
        mc::describe("%s, array %s a guard page, comparator returns %s", d, pl == AFTER ? "ends at" : "starts after", style ? "large magnitudes" : "-1/0/1");
        Q.base = AR.put(orig, (size_t)n * size, pl);
        mc::crash_context("C11.qsort.memory");
        bool ok = true;
        if (setjmp(Q.jb) == 0)
            ok = mc::guarded([&] { igc_qsort(Q.base, n, size, qcmp); });
        mc::crash_context("C11.harness");
        if (Q.nrand)
            mc::nontrivial();
        if (Q.bad)
            return;
        if (!ok)
        {
            mc::violation(pl == AFTER ? "C11.qsort.access_past_end" : "C11.qsort.access_before_start", "%s: touched the inaccessible page next to the array", d);
            return;
        }
        // ordered by the comparator
        bool sorted = true;
        for (int i = 0; i + 1 < n; i++)
            if ((Q.base[i * size] >> 4) > (Q.base[(i + 1) * size] >> 4))
            {
                mc::violation("C11.qsort.not_sorted", "%s: result has key %d before key %d at index %d", d, Q.base[i * size] >> 4, Q.base[(i + 1) * size] >> 4, i);
                sorted = false;
                break;
            }
        // a permutation of the input, every element intact
        unsigned seen = 0;
        for (int i = 0; i < n; i++)
        {
            const uint8_t *e = Q.base + i * size;
            int tag = e[0] & 15;
            if (!elem_ok(e, size, n) || memcmp(e, orig + tag * size, size) != 0 || (seen >> tag & 1))
            {
                mc::violation("C11.qsort.not_a_permutation", "%s: element %d of the result is %s", d, i, (seen >> tag & 1) ? "a duplicate of an earlier one" : "not an input element");
                break;
            }
            seen |= 1u << tag;
        }
        long o = AR.dirty_outside(Q.base, (size_t)n * size);
        if (o != -1000000)
            mc::violation("C11.qsort.write_outside_array", "%s: byte at array%+ld was overwritten", d, o);
        mc::outcome(mc::fmt("n%d cmp%ld %d", n, Q.ncmp, sorted));
    });

    // (2) bsearch: every sorted array of length 0..8 over keys {0..3} (duplicates) x key -1..4 x element size x placement x comparator style
    mc::add_check("bsearch_all_sorted_arrays", [] {
        AR.init(0xA5);
        KEY.init(0x5A);
        // non-decreasing sequences over {0,1,2,3} of length 0..8
        static std::vector<std::vector<int>> arrs;
        if (arrs.empty())
            for (int n = 0; n <= 8; n++)
                for (int a = 0; a <= n; a++)
                    for (int b = 0; a + b <= n; b++)
                        for (int c = 0; a + b + c <= n; c++)
                        {
                            std::vector<int> v;
                            v.insert(v.end(), a, 0);
                            v.insert(v.end(), b, 1);
                            v.insert(v.end(), c, 2);
                            v.insert(v.end(), n - a - b - c, 3);
                            arrs.push_back(v);
                        }
        int c0 = mc::choose((int)arrs.size());
        const std::vector<int> &v = arrs[c0];
        B.n = (int)v.size();
        for (int i = 0; i < B.n; i++)
            B.keys[i] = v[i];
        {
            std::string k;
            for (int x : v)
                k += (char)('0' + x);
            mc::describe("bsearch in sorted [%s]: keys -1..4 x every element size 1..32 x before/after guard x 2 comparator styles", k.c_str());
        }
        if (B.n >= 2)
            mc::nontrivial();
        uint64_t calls = 0;
        uint8_t data[10 * 32];
        for (int si = 1; si <= 32; si++)
            for (int pl = AFTER; pl <= BEFORE; pl++)
                for (int style = 0; style < 2; style++)
                    for (int want = -1; want <= 4; want++)
                    {
                        B.size = si;
                        B.style = style;
                        B.want = want;
                        B.ncalls = 0;
                        for (int i = 0; i < B.n; i++)
                            mk_elem(data + i * B.size, B.size, v[i], i);
                        B.base = AR.put(data, (size_t)B.n * B.size, pl);
                        // key object: its own page; style 0 = element layout with key nibble (want may be -1/4: encode +1), style 1 = int
                        uint8_t kobj[32];
                        memset(kobj, 0x77, sizeof kobj);
                        int ks = style ? (int)sizeof(int) : B.size;
                        if (style)
                            memcpy(kobj, &want, sizeof want);
                        B.keyp = KEY.put(kobj, ks, pl);
                        char d[128];
                        bdesc(d, sizeof d);
                        void *r = nullptr;
                        calls++;
                        mc::crash_context("C11.bsearch.memory");
                        bool ok = mc::guarded([&] { r = igc_bsearch(B.keyp, B.base, B.n, B.size, bcmp_); });
                        mc::crash_context("C11.harness");
                        if (!ok)
                        {
                            mc::violation(B.n == 0 ? "C11.bsearch.access_outside_array.empty_array" : "C11.bsearch.access_outside_array", "%s: touched the inaccessible page next to the array or key", d);
                            continue;
                        }
                        bool present = false;
                        for (int x : v)
                            present |= x == want;
                        if (r && !b_in_array(r))
                            mc::violation("C11.bsearch.result_not_an_element", "%s: returned base%+ld", d, (long)((uint8_t *)r - B.base));
                        else if (r && (*(uint8_t *)r >> 4) != want)
                            mc::violation("C11.bsearch.result_not_equal_to_key", "%s: returned element %ld with key %d", d, (long)((uint8_t *)r - B.base) / B.size, *(uint8_t *)r >> 4);
                        else if (!r && present)
                            mc::violation("C11.bsearch.missed_present_key", "%s: returned NULL although the key is in the array", d);
                        else if (r && !present)
                            mc::violation("C11.bsearch.found_absent_key", "%s: returned non-null although the key is not in the array", d);
                        if (memcmp(B.base, data, (size_t)B.n * B.size) != 0 || AR.dirty_outside(B.base, (size_t)B.n * B.size) != -1000000)
                            mc::violation("C11.bsearch.array_modified", "%s: the (const) array or its surroundings were written", d);
                        mc::outcome(mc::fmt("%d%d", r != nullptr, B.ncalls > 3 ? 3 : B.ncalls));
                    }
        mc::more_cases(calls - 1, B.n >= 2 ? calls - 1 : 0);
    });
}
MC_MAIN
