// ro_text.hpp — present a NUL-terminated text in READ-ONLY memory, its terminator flush against an inaccessible page.
// A parser that patches its (const) input and restores it, or that reads past the terminator, faults there (SIGSEGV ->
// the worker dies -> the supervisor records the case under the current crash_context).
// No system call per text: one memfd page is mapped twice, a writable view for the harness and a PROT_READ view,
// followed by a PROT_NONE page, for the routine under test. Per process (re-created after fork).
#pragma once
#include <cstring>
#include <sys/mman.h>
#include <unistd.h>
#ifndef MFD_CLOEXEC
#include <linux/memfd.h>
#endif
#include <sys/syscall.h>

namespace ro_text
{
    static char *g_rw = nullptr, *g_ro = nullptr;
    static pid_t g_owner = 0;
    static inline bool init()
    {
        if (g_ro && g_owner == getpid())
            return true;
        int fd = (int)syscall(SYS_memfd_create, "ro_text", 0u);
        if (fd < 0 || ftruncate(fd, 4096) != 0)
            return false;
        char *rw = (char *)mmap(nullptr, 4096, PROT_READ | PROT_WRITE, MAP_SHARED, fd, 0);
        char *win = (char *)mmap(nullptr, 3 * 4096, PROT_NONE, MAP_PRIVATE | MAP_ANONYMOUS, -1, 0);
        if (rw == MAP_FAILED || win == MAP_FAILED)
            return false;
        char *ro = (char *)mmap(win + 4096, 4096, PROT_READ, MAP_SHARED | MAP_FIXED, fd, 0);
        close(fd);
        if (ro == MAP_FAILED)
            return false;
        g_rw = rw;
        g_ro = ro;
        g_owner = getpid();
        return true;
    }
    // copy s[0..len) + NUL so that the NUL is the last byte of the read-only page; returns the read-only address (nullptr on failure)
    static inline const char *stage(const char *s, size_t len)
    {
        if (len + 1 > 4096 || !init())
            return nullptr;
        size_t off = 4096 - (len + 1);
        memcpy(g_rw + off, s, len);
        g_rw[off + len] = 0;
        return g_ro + off;
    }
}
