#!/bin/bash
# C07: numconvert.c, dprint_func_impl.c and the compat libc itoa.c/atol.c of $REPO, all instrumented
# (ASan + signed-integer-overflow), linked with the harness. The libc shims are compiled against the host
# headers with a two-file shim directory and their public names get the prefix igc_.
set -e
. $MC/par.sh
H=$VERIF/harness/c07
SAN="-fsanitize=address -fsanitize=signed-integer-overflow -fno-sanitize-recover=signed-integer-overflow"
CF="-O1 -g $SAN -fno-omit-frame-pointer -I$REPO -I$MC"
mkdir -p $BUILD/shim
echo "#include \"$REPO/compat/libc/include/ctype.h\"" > $BUILD/shim/ctype.h
printf '#include_next <errno.h>\n#include <igris/util/errno.h>\n' > $BUILD/shim/errno.h
LIBC="-O1 -g $SAN -fno-omit-frame-pointer -fno-builtin -D_GNU_SOURCE -D__weak_alias(a,b)= -isystem $BUILD/shim -I$REPO"
par clang -c $CF $REPO/igris/util/numconvert.c -o $BUILD/numconvert.o
par clang -c $CF $REPO/igris/dprint/dprint_func_impl.c -o $BUILD/dprint.o
par clang -c $LIBC $REPO/compat/libc/stdlib/itoa.c -o $BUILD/itoa.o
par clang -c $LIBC $REPO/compat/libc/stdlib/atol.c -o $BUILD/atol.o
par clang++ -std=c++17 -c $CF $H/c07_int.cpp -o $BUILD/h.o
par clang++ -std=c++17 -O2 -c -I$MC $MC/mc.cpp -o $BUILD/mc.o
parwait
for s in itoa utoa ltoa ultoa; do R="$R --redefine-sym $s=igc_$s"; done
objcopy $R $BUILD/itoa.o
objcopy --redefine-sym atol=igc_atol --redefine-sym atoi=igc_atoi $BUILD/atol.o
clang++ $SAN $BUILD/h.o $BUILD/numconvert.o $BUILD/dprint.o $BUILD/itoa.o $BUILD/atol.o $BUILD/mc.o -o $BUILD/c07
echo "int $BUILD/c07" > $BUILD/runs.txt
