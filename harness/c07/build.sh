#!/bin/bash
# C07: numconvert.c, dprint_func_impl.c and the compat libc itoa.c/atol.c of $REPO, all instrumented
# (ASan + signed-integer-overflow), linked with the harness. The libc shims are compiled against the host
# headers with a two-file shim directory and their public names get the prefix igc_.
set -e
. $MC/par.sh
H=$VERIF/harness/c07
SAN="-fsanitize=address -fsanitize=signed-integer-overflow -fno-sanitize-recover=signed-integer-overflow"
CF="-O1 -g $SAN -fno-omit-frame-pointer -I$REPO -I$MC"
mkdir -p $BUILD/shim
echo "#include \"$REPO/compat/libc/include/ctype.h\"" > $BUILD/shim/ctype.h
printf '#include_next <errno.h>\n#include <igris/util/errno.h>\n' > $BUILD/shim/errno.h
LIBC="-O1 -g $SAN -fno-omit-frame-pointer -fno-builtin -D_GNU_SOURCE -D__weak_alias(a,b)= -isystem $BUILD/shim -I$REPO"
# two builds of everything that handles characters: plain char signed (host default) and -funsigned-char
for V in s u; do
  if [ $V = u ]; then X="-funsigned-char -DVARIANT_UCHAR"; else X=""; fi
  par clang -c $CF $X $REPO/igris/util/numconvert.c -o $BUILD/numconvert_$V.o
  par clang -c $CF $X $REPO/igris/dprint/dprint_func_impl.c -o $BUILD/dprint_$V.o
  par clang -c $LIBC $X $REPO/compat/libc/stdlib/itoa.c -o $BUILD/itoa_$V.o
  par clang -c $LIBC $X $REPO/compat/libc/stdlib/atol.c -o $BUILD/atol_$V.o
  par clang++ -std=c++20 -c $CF $X $H/c07_int.cpp -o $BUILD/h_$V.o
done
par clang++ -std=c++20 -O2 -c -I$MC $MC/mc.cpp -o $BUILD/mc.o
parwait
for s in itoa utoa ltoa ultoa; do R="$R --redefine-sym $s=igc_$s"; done
for V in s u; do
  objcopy $R $BUILD/itoa_$V.o
  objcopy --redefine-sym atol=igc_atol --redefine-sym atoi=igc_atoi $BUILD/atol_$V.o
done
par clang++ $SAN $BUILD/h_s.o $BUILD/numconvert_s.o $BUILD/dprint_s.o $BUILD/itoa_s.o $BUILD/atol_s.o $BUILD/mc.o -o $BUILD/c07
par clang++ $SAN $BUILD/h_u.o $BUILD/numconvert_u.o $BUILD/dprint_u.o $BUILD/itoa_u.o $BUILD/atol_u.o $BUILD/mc.o -o $BUILD/c07u
parwait
# the short variant run first: ./check splits the remaining deadline evenly over the runs that are left
echo "int_unsigned_char $BUILD/c07u" > $BUILD/runs.txt
echo "int $BUILD/c07" >> $BUILD/runs.txt
