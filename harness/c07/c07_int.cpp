// C07 — integer <-> text conversion is exact and invertible for every value and base.
// Shape I: exhaustive enumeration of value x base x routine and of short strings x terminator,
// each compared with a repeated-division reference renderer / a digit-by-digit reference parser.
// Every output buffer and every input string is an exactly-sized heap block (ASan = memory oracle).
#include "mc.hpp"
#include <algorithm>
#include <climits>
#include <cstdlib>
#include <cstring>
#include <igris/defs/vt100.h>
#include <igris/dprint.h>
#include <igris/util/hexascii.h>
#include <igris/util/numconvert.h>
#include "ro_text.hpp"
#include <set>
#include <string>
#include <vector>

extern "C"
{
    // compat/libc/stdlib/{itoa,atol}.c, symbols renamed by build.sh
    char *igc_itoa(int, char *, unsigned short);
    char *igc_utoa(unsigned, char *, unsigned short);
    char *igc_ltoa(long, char *, unsigned short);
    char *igc_ultoa(unsigned long, char *, unsigned short);
    long igc_atol(const char *);
    int igc_atoi(const char *);
}

// ---------------------------------------------------------------- debug_putchar capture
static char g_cap[256];
static int g_capn = 0;
extern "C" void debug_putchar(char c)
{
    if (g_capn < (int)sizeof g_cap - 1)
        g_cap[g_capn] = c;
    g_capn++;
}
extern "C" void debug_write(const char *c, int n)
{
    for (int i = 0; i < n; i++)
        debug_putchar(c[i]);
}

// ---------------------------------------------------------------- reference
static inline int lower(int c) { return (c >= 'A' && c <= 'Z') ? c + 32 : c; }
static inline int upper(int c) { return (c >= 'a' && c <= 'z') ? c - 32 : c; }
static inline int digit_value(int c) // -1 if not an alphanumeric digit
{
    if (c >= '0' && c <= '9')
        return c - '0';
    if (c >= 'a' && c <= 'z')
        return c - 'a' + 10;
    if (c >= 'A' && c <= 'Z')
        return c - 'A' + 10;
    return -1;
}
// canonical lower-case rendering by repeated division; returns the length
static int ref_render(bool neg, uint64_t mag, int base, char *out)
{
    static const char D[] = "0123456789abcdefghijklmnopqrstuvwxyz";
    char t[72];
    int n = 0;
    do
    {
        t[n++] = D[mag % (unsigned)base];
        mag /= (unsigned)base;
    } while (mag);
    int k = 0;
    if (neg)
        out[k++] = '-';
    while (n)
        out[k++] = t[--n];
    out[k] = 0;
    return k;
}
struct RefParse
{
    size_t end;      // index of the first character that cannot continue the number
    bool neg;        // a leading '-' was taken
    bool plus;       // a leading '+' was taken (atol only)
    int ndigits;     // digits consumed
    bool overflow;   // magnitude does not fit 64 bits
    uint64_t mag;    // magnitude (valid when !overflow)
    size_t sign_pos; // index of the sign character / first digit (after skipped blanks)
};
static RefParse ref_parse(const char *s, int base, bool minus_ok, bool plus_ok, bool skip_space)
{
    RefParse r{0, false, false, 0, false, 0, 0};
    size_t i = 0;
    if (skip_space)
        while (s[i] == ' ' || (s[i] >= '\t' && s[i] <= '\r'))
            i++;
    r.sign_pos = i;
    if (minus_ok && s[i] == '-')
    {
        r.neg = true;
        i++;
    }
    else if (plus_ok && s[i] == '+')
    {
        r.plus = true;
        i++;
    }
    for (;; i++)
    {
        int d = digit_value((unsigned char)s[i]);
        if (d < 0 || d >= base)
            break;
        unsigned __int128 m = (unsigned __int128)r.mag * (unsigned)base + (unsigned)d;
        if (m >> 64)
            r.overflow = true;
        r.mag = (uint64_t)m;
        r.ndigits++;
    }
    r.end = i;
    return r;
}

// ---------------------------------------------------------------- exactly-sized heap blocks
static char *g_pool[160];
static char *pool(size_t n) // one block per size, reused: [p, p+n) ends at the ASan redzone
{
    if (n >= sizeof g_pool / sizeof g_pool[0])
        mc::harness_error("pool(%zu)", n);
    if (!g_pool[n])
        g_pool[n] = (char *)malloc(n ? n : 1);
    return g_pool[n];
}
// The same text in READ-ONLY memory, its NUL flush against an inaccessible page (ro_text.hpp): a parser that patches its
// (const) input and restores it, or reads past the terminator, faults there.
static const char *g_ro = nullptr;    // the staged read-only copy
static const char *g_ro_of = nullptr; // the heap copy it mirrors
static void ro_stage(const char *heap_copy, size_t len)
{
    g_ro = ro_text::stage(heap_copy, len);
    if (!g_ro)
        mc::harness_error("ro_text::stage failed");
    g_ro_of = heap_copy;
}
static inline const char *ro_twin(const char *s) { return s == g_ro_of ? g_ro : s; }
static char *g_spool[160];
static const char *exact_copy(const char *s, size_t len) // len bytes + NUL, exactly sized (ASan) + the read-only twin
{
    if (len + 1 >= sizeof g_spool / sizeof g_spool[0])
        mc::harness_error("exact_copy(%zu)", len);
    if (!g_spool[len + 1])
        g_spool[len + 1] = (char *)malloc(len + 1);
    memcpy(g_spool[len + 1], s, len);
    g_spool[len + 1][len] = 0;
    ro_stage(g_spool[len + 1], len);
    return g_spool[len + 1];
}

// ---------------------------------------------------------------- routines under test
struct Rend
{
    const char *name;
    int bits;
    bool sgn;
    bool ret_end; // returned pointer is the terminator (igris_*) / unspecified by the statement (libc shims)
    char *(*fn)(uint64_t raw, char *buf, int base);
    bool upper() const { return strncmp(name, "igris_u", 7) == 0; } // letter case of the family: igris_u*toa upper, igris_i*toa and the libc shims lower
};
static const Rend RENDS[] = {
    {"igris_i8toa", 8, true, true, [](uint64_t r, char *b, int bs) { return igris_i8toa((int8_t)r, b, (uint8_t)bs); }},
    {"igris_i16toa", 16, true, true, [](uint64_t r, char *b, int bs) { return igris_i16toa((int16_t)r, b, (uint8_t)bs); }},
    {"igris_i32toa", 32, true, true, [](uint64_t r, char *b, int bs) { return igris_i32toa((int32_t)r, b, (uint8_t)bs); }},
    {"igris_i64toa", 64, true, true, [](uint64_t r, char *b, int bs) { return igris_i64toa((int64_t)r, b, (uint8_t)bs); }},
    {"igris_u8toa", 8, false, true, [](uint64_t r, char *b, int bs) { return igris_u8toa((uint8_t)r, b, (uint8_t)bs); }},
    {"igris_u16toa", 16, false, true, [](uint64_t r, char *b, int bs) { return igris_u16toa((uint16_t)r, b, (uint8_t)bs); }},
    {"igris_u32toa", 32, false, true, [](uint64_t r, char *b, int bs) { return igris_u32toa((uint32_t)r, b, (uint8_t)bs); }},
    {"igris_u64toa", 64, false, true, [](uint64_t r, char *b, int bs) { return igris_u64toa((uint64_t)r, b, (uint8_t)bs); }},
    {"itoa", 32, true, false, [](uint64_t r, char *b, int bs) { return igc_itoa((int)r, b, (unsigned short)bs); }},
    {"utoa", 32, false, false, [](uint64_t r, char *b, int bs) { return igc_utoa((unsigned)r, b, (unsigned short)bs); }},
    {"ltoa", 64, true, false, [](uint64_t r, char *b, int bs) { return igc_ltoa((long)r, b, (unsigned short)bs); }},
    {"ultoa", 64, false, false, [](uint64_t r, char *b, int bs) { return igc_ultoa((unsigned long)r, b, (unsigned short)bs); }},
};
static const int NREND = sizeof RENDS / sizeof RENDS[0];

struct Pars
{
    const char *name;
    int bits;
    bool sgn;
    uint64_t (*fn)(const char *, int base, char **end); // value sign-/zero-extended to 64 bits
};
static const Pars PARS[] = {
    {"igris_atoi8", 8, true, [](const char *s, int b, char **e) { return (uint64_t)(int64_t)igris_atoi8(s, (uint8_t)b, e); }},
    {"igris_atoi16", 16, true, [](const char *s, int b, char **e) { return (uint64_t)(int64_t)igris_atoi16(s, (uint8_t)b, e); }},
    {"igris_atoi32", 32, true, [](const char *s, int b, char **e) { return (uint64_t)(int64_t)igris_atoi32(s, (uint8_t)b, e); }},
    {"igris_atoi64", 64, true, [](const char *s, int b, char **e) { return (uint64_t)(int64_t)igris_atoi64(s, (uint8_t)b, e); }},
    {"igris_atou8", 8, false, [](const char *s, int b, char **e) { return (uint64_t)igris_atou8(s, (uint8_t)b, e); }},
    {"igris_atou16", 16, false, [](const char *s, int b, char **e) { return (uint64_t)igris_atou16(s, (uint8_t)b, e); }},
    {"igris_atou32", 32, false, [](const char *s, int b, char **e) { return (uint64_t)igris_atou32(s, (uint8_t)b, e); }},
    {"igris_atou64", 64, false, [](const char *s, int b, char **e) { return (uint64_t)igris_atou64(s, (uint8_t)b, e); }},
};
static const int NPARS = sizeof PARS / sizeof PARS[0];

static inline bool fits(int bits, bool sgn, bool neg, uint64_t mag)
{
    if (sgn)
    {
        uint64_t lim = 1ull << (bits - 1);
        return neg ? mag <= lim : mag < lim;
    }
    if (neg && mag)
        return false;
    return bits == 64 || mag < (1ull << bits);
}
static inline bool is_min(int bits, bool sgn, bool neg, uint64_t mag) { return sgn && neg && mag == (1ull << (bits - 1)); }
static inline uint64_t raw_of(bool neg, uint64_t mag) { return neg ? 0 - mag : mag; }

static std::string vis(const char *s, size_t n)
{
    std::string o;
    for (size_t i = 0; i < n; i++)
    {
        unsigned char c = s[i];
        if (c >= 0x20 && c < 0x7f && c != '\\')
            o += (char)c;
        else
            o += mc::fmt("\\x%02x", c);
    }
    return o;
}
static std::string valstr(bool neg, uint64_t mag) { return mc::fmt("%s%llu", neg && mag ? "-" : "", (unsigned long long)mag); }

// ---------------------------------------------------------------- oracles
// One rendering into an exactly-sized block. ref is the canonical lower-case text.
// Returns the produced text (for the round trip) or nullptr if it was wrong.
static bool g_reuse = false; // family32_all_bases: every rendering is repeated into a pre-used buffer
static const char *check_render(const Rend &r, bool neg, uint64_t mag, int base, const char *ref, int len)
{
    char *buf = pool(len + 1);
    memset(buf, 0x55, len + 1);
    char *ret = r.fn(raw_of(neg, mag), buf, base);
    const char *cls = is_min(r.bits, r.sgn, neg, mag) ? "type_min" : (neg && mag) ? "negative" : "nonnegative";
    bool ok = buf[len] == 0;
    for (int i = 0; ok && i < len; i++)
        if ((unsigned char)buf[i] != (r.upper() ? upper(ref[i]) : ref[i]))
            ok = false;
    if (!ok)
    {
        mc::violation(mc::fmt("C07.%s.text.%s", r.name, cls), "%s(%s, base %d) wrote \"%s\" want \"%s\" in %s case (NUL at %d)", r.name,
                      valstr(neg, mag).c_str(), base, vis(buf, len + 1).c_str(), ref, r.upper() ? "upper" : "lower", len);
        return nullptr;
    }
    if (g_reuse)
    {
        // again into a buffer that is never cleared and still holds the previous (often longer) text: same text, same terminator
        static char reused[96];
        r.fn(raw_of(neg, mag), reused, base);
        if (memcmp(reused, buf, len + 1) != 0)
            mc::violation(mc::fmt("C07.%s.stale_text_in_reused_buffer", r.name), "%s(%s, base %d): \"%s\" in a fresh buffer, \"%s\" in a buffer that held an earlier text",
                          r.name, valstr(neg, mag).c_str(), base, vis(buf, len).c_str(), vis(reused, strnlen(reused, 95)).c_str());
    }
    if (r.ret_end ? ret != buf + len : (ret != buf && ret != buf + len))
        mc::violation(mc::fmt("C07.%s.returned_pointer", r.name), "%s(%s, base %d) returned buf%+td, the terminator is at buf+%d", r.name,
                      valstr(neg, mag).c_str(), base, ret - buf, len);
    return buf;
}

// One parse of the exactly-sized string s (NUL terminated) against the reference.
static void check_parse(const Pars &p, const char *s, size_t slen, int base)
{
    RefParse rp = ref_parse(s, base, p.sgn, false, false);
    char *end = nullptr;
    uint64_t got = p.fn(s, base, &end);
    uint64_t got2 = p.fn(ro_twin(s), base, nullptr); // second call: end = NULL, text in read-only memory
    if (got != got2)
        mc::violation(mc::fmt("C07.%s.value_depends_on_end_argument", p.name), "%s(\"%s\", base %d): %llx with end, %llx with end=NULL on the read-only copy", p.name,
                      vis(s, slen).c_str(), base, (unsigned long long)got, (unsigned long long)got2);
    bool sign_only = rp.ndigits == 0 && rp.neg;
    bool end_ok = end == s + rp.end || (sign_only && end == s + rp.sign_pos);
    if (sign_only)
        mc::count("sign_without_digits_either_end_accepted");
    if (!end_ok)
    {
        const char *kind;
        long off = end ? (long)(end - s) : -999;
        if (!end)
            kind = "not_written";
        else if (off < -1 || off > (long)slen)
            kind = "outside_the_string";
        else if (off == (long)rp.end - 1)
            kind = "one_before";
        else if (off < 0)
            kind = "before_the_string";
        else if (off > (long)rp.end)
        {
            int dv = digit_value((unsigned char)s[rp.end]);
            kind = dv >= base ? "digit_ge_base_accepted" : "non_digit_accepted";
        }
        else
        {
            int c = (unsigned char)s[off];
            kind = (c >= 'a' && c <= 'z') ? "stopped_at_valid_lower_letter" : (c >= 'A' && c <= 'Z') ? "stopped_at_valid_upper_letter" : "stopped_early";
        }
        mc::violation(mc::fmt("C07.%s.end.%s", p.name, kind), "%s(\"%s\", base %d): *end = buf%+ld, first character that cannot continue the number is at %zu",
                      p.name, vis(s, slen).c_str(), base, off, rp.end);
    }
    if (rp.overflow || !fits(p.bits, p.sgn, rp.neg, rp.mag))
    {
        mc::count("value_not_compared_out_of_range");
        return;
    }
    uint64_t want = raw_of(rp.neg, rp.mag);
    if (!p.sgn && p.bits < 64)
        want &= (1ull << p.bits) - 1;
    if (got != want)
    {
        bool lo = false, up = false;
        for (size_t i = 0; i < rp.end; i++)
        {
            int c = (unsigned char)s[i];
            lo |= c >= 'a' && c <= 'z';
            up |= c >= 'A' && c <= 'Z';
        }
        const char *cls = !end_ok ? "with_wrong_end" : lo ? "lower_case_letters" : up ? "upper_case_letters" : rp.neg ? "negative_decimal_digits" : "decimal_digits";
        mc::violation(mc::fmt("C07.%s.value.%s", p.name, cls), "%s(\"%s\", base %d) = %lld (0x%llx) want %s", p.name, vis(s, slen).c_str(), base,
                      (long long)got, (unsigned long long)got, valstr(rp.neg, rp.mag).c_str());
    }
}

static char term_for_base(int base, int which) // a character that is NOT a digit of this base
{
    if (which == 0)
        return 0;
    if (base < 10)
        return (char)('0' + base); // the first invalid decimal digit
    if (base < 36)
        return (char)((which == 1 ? 'a' : 'A') + base - 10); // the first invalid letter, both cases
    return which == 1 ? '{' : '['; // the characters after 'z' / 'Z'
}

// parse(render(v)) == v, for the text as produced, upper-cased and lower-cased, followed by NUL and by
// the first character that is not a digit of the base
static void round_trip(bool neg, uint64_t mag, int base, const char *text, int len, int only_bits)
{
    char tmp[80];
    for (int cs = 0; cs < 3; cs++)
    {
        bool letters = false;
        for (int i = 0; i < len; i++)
        {
            int c = (unsigned char)text[i];
            tmp[i] = cs == 0 ? c : cs == 1 ? upper(c) : lower(c);
            letters |= digit_value(c) >= 10;
        }
        if (cs && !letters)
            break;
        for (int t = 0; t < 3; t++)
        {
            char tc = term_for_base(base, t);
            size_t n = len;
            if (tc)
                tmp[n++] = tc;
            const char *s = exact_copy(tmp, n);
            for (int k = 0; k < NPARS; k++)
            {
                const Pars &p = PARS[k];
                if (only_bits && p.bits != only_bits)
                    continue;
                if (!fits(p.bits, p.sgn, neg, mag))
                    continue;
                mc::crash_context("C07.%s.memory", p.name);
                check_parse(p, s, n, base);
            }
        }
    }
}

// ---------------------------------------------------------------- value families
static std::vector<uint64_t> g_f32, g_f64; // raw two's-complement patterns, sorted, unique
static void build_families()
{
    std::set<uint64_t> a, b;
    auto add64 = [&](unsigned __int128 v) { b.insert((uint64_t)v); b.insert((uint64_t)(0 - (uint64_t)v)); };
    auto add32 = [&](uint64_t v) { a.insert((uint32_t)v); a.insert((uint32_t)(0 - (uint32_t)v)); };
    for (int d = -2; d <= 2; d++)
    {
        add64((unsigned __int128)0 + (uint64_t)d);
        add64((uint64_t)INT64_MAX + d);
        add64((uint64_t)UINT64_MAX + d);
        add64((uint64_t)INT32_MAX + (int64_t)d);
        add64((uint64_t)UINT32_MAX + (int64_t)d);
        add32((uint32_t)d);
        add32((uint32_t)INT32_MAX + d);
        add32((uint32_t)UINT32_MAX + d);
        add32((uint32_t)INT16_MAX + d);
        add32((uint32_t)UINT16_MAX + d);
    }
    // b^k + d : digit-count boundaries of every base (10..0, 9..9, 10..1)
    for (int base = 2; base <= 36; base++)
    {
        unsigned __int128 p = 1;
        while (p <= (unsigned __int128)UINT64_MAX)
        {
            for (int d = -1; d <= 1; d++)
            {
                unsigned __int128 v = p + d;
                if (v <= UINT64_MAX)
                    add64(v);
                if (v <= UINT32_MAX)
                    add32((uint64_t)v);
            }
            // d * b^k : a single non-zero digit followed by zeros (largest digit)
            unsigned __int128 w = p * (base - 1);
            if (w <= UINT64_MAX)
                add64(w);
            if (w <= UINT32_MAX)
                add32((uint64_t)w);
            p *= base;
        }
    }
    // values with <= 3 set bits, and their complements
    for (int i = 0; i < 64; i++)
        for (int j = i; j < 64; j++)
            for (int k = j; k < 64; k++)
            {
                uint64_t v = (1ull << i) | (1ull << j) | (1ull << k);
                b.insert(v);
                b.insert(~v);
                if (k < 32)
                {
                    a.insert((uint32_t)v);
                    a.insert((uint32_t)~v);
                }
            }
    g_f32.assign(a.begin(), a.end());
    g_f64.assign(b.begin(), b.end());
}

// Run every renderer (and the parse round trip) on one mathematical value (neg, mag).
struct Seen
{
    uint64_t lens = 0;
    bool neg = false, letters = false;
};
static void render_all(bool neg, uint64_t mag, int base, Seen &seen, uint64_t &n_calls, uint64_t &n_nontrivial)
{
    char ref[80];
    int len = ref_render(neg && mag, mag, base, ref);
    seen.lens |= 1ull << (len & 63);
    seen.neg |= neg && mag;
    bool nt = len >= 2;
    bool tripped = false;
    for (int k = 0; k < NREND; k++)
    {
        const Rend &r = RENDS[k];
        if (!fits(r.bits, r.sgn, neg && mag, mag))
            continue;
        mc::crash_context("C07.%s.memory", r.name);
        const char *text = check_render(r, neg && mag, mag, base, ref, len);
        n_calls++;
        n_nontrivial += nt;
        // round trip once per value: the text of the first igris renderer that holds it, through every parser that holds it
        if (text && r.ret_end && !tripped)
        {
            char t2[80];
            memcpy(t2, text, len + 1);
            round_trip(neg && mag, mag, base, t2, len, 0);
            tripped = true;
        }
    }
    mc::crash_context("C07.harness");
}
static void emit_seen(const Seen &s)
{
    for (int i = 0; i < 64; i++)
        if (s.lens >> i & 1)
            mc::outcome(mc::fmt("len=%d", i));
    if (s.neg)
        mc::outcome("negative");
}

// ---------------------------------------------------------------- debug_print renderers
struct DbgFn
{
    const char *name;
    int bits;     // argument width
    bool sgn;     // argument is signed (decimal only)
    int base;     // 10, 16 or 2
    int digits;   // fixed width (hex/bin), 0 for canonical decimal
    void (*fn)(uint64_t raw);
};
static const DbgFn DBG[] = {
    {"debug_printdec_signed_char", 8, true, 10, 0, [](uint64_t r) { debug_printdec_signed_char((signed char)r); }},
    {"debug_printdec_signed_short", 16, true, 10, 0, [](uint64_t r) { debug_printdec_signed_short((short)r); }},
    {"debug_printdec_signed_int", 32, true, 10, 0, [](uint64_t r) { debug_printdec_signed_int((int)r); }},
    {"debug_printdec_signed_long", 64, true, 10, 0, [](uint64_t r) { debug_printdec_signed_long((long)r); }},
    {"debug_printdec_signed_long_long", 64, true, 10, 0, [](uint64_t r) { debug_printdec_signed_long_long((long long)r); }},
    {"debug_printdec_unsigned_char", 8, false, 10, 0, [](uint64_t r) { debug_printdec_unsigned_char((unsigned char)r); }},
    {"debug_printdec_unsigned_short", 16, false, 10, 0, [](uint64_t r) { debug_printdec_unsigned_short((unsigned short)r); }},
    {"debug_printdec_unsigned_int", 32, false, 10, 0, [](uint64_t r) { debug_printdec_unsigned_int((unsigned)r); }},
    {"debug_printdec_unsigned_long", 64, false, 10, 0, [](uint64_t r) { debug_printdec_unsigned_long((unsigned long)r); }},
    {"debug_printdec_unsigned_long_long", 64, false, 10, 0, [](uint64_t r) { debug_printdec_unsigned_long_long((unsigned long long)r); }},
    {"debug_printhex_uint4", 4, false, 16, 1, [](uint64_t r) { debug_printhex_uint4((uint8_t)r); }},
    {"debug_printhex_uint8", 8, false, 16, 2, [](uint64_t r) { debug_printhex_uint8((uint8_t)r); }},
    {"debug_printhex_uint16", 16, false, 16, 4, [](uint64_t r) { debug_printhex_uint16((uint16_t)r); }},
    {"debug_printhex_uint32", 32, false, 16, 8, [](uint64_t r) { debug_printhex_uint32((uint32_t)r); }},
    {"debug_printhex_uint64", 64, false, 16, 16, [](uint64_t r) { debug_printhex_uint64((uint64_t)r); }},
    {"debug_printhex_char", 8, false, 16, 2, [](uint64_t r) { debug_printhex_char((char)r); }},
    {"debug_printhex_signed_char", 8, false, 16, 2, [](uint64_t r) { debug_printhex_signed_char((signed char)r); }},
    {"debug_printhex_signed_short", 16, false, 16, 4, [](uint64_t r) { debug_printhex_signed_short((short)r); }},
    {"debug_printhex_signed_int", 32, false, 16, 8, [](uint64_t r) { debug_printhex_signed_int((int)r); }},
    {"debug_printhex_signed_long", 64, false, 16, 16, [](uint64_t r) { debug_printhex_signed_long((long)r); }},
    {"debug_printhex_signed_long_long", 64, false, 16, 16, [](uint64_t r) { debug_printhex_signed_long_long((long long)r); }},
    {"debug_printhex_unsigned_char", 8, false, 16, 2, [](uint64_t r) { debug_printhex_unsigned_char((unsigned char)r); }},
    {"debug_printhex_unsigned_short", 16, false, 16, 4, [](uint64_t r) { debug_printhex_unsigned_short((unsigned short)r); }},
    {"debug_printhex_unsigned_int", 32, false, 16, 8, [](uint64_t r) { debug_printhex_unsigned_int((unsigned)r); }},
    {"debug_printhex_unsigned_long", 64, false, 16, 16, [](uint64_t r) { debug_printhex_unsigned_long((unsigned long)r); }},
    {"debug_printhex_unsigned_long_long", 64, false, 16, 16, [](uint64_t r) { debug_printhex_unsigned_long_long((unsigned long long)r); }},
    {"debug_printbin_uint4", 4, false, 2, 4, [](uint64_t r) { debug_printbin_uint4((uint8_t)r); }},
    {"debug_printbin_uint8", 8, false, 2, 8, [](uint64_t r) { debug_printbin_uint8((uint8_t)r); }},
    {"debug_printbin_uint16", 16, false, 2, 16, [](uint64_t r) { debug_printbin_uint16((uint16_t)r); }},
    {"debug_printbin_uint32", 32, false, 2, 32, [](uint64_t r) { debug_printbin_uint32((uint32_t)r); }},
    {"debug_printbin_uint64", 64, false, 2, 64, [](uint64_t r) { debug_printbin_uint64((uint64_t)r); }},
};
static const int NDBG = sizeof DBG / sizeof DBG[0];

static void check_dbg(const DbgFn &f, uint64_t raw, Seen &seen)
{
    uint64_t mask = f.bits == 64 ? ~0ull : (1ull << f.bits) - 1;
    raw &= mask;
    bool neg = f.sgn && (raw >> (f.bits - 1) & 1);
    uint64_t mag = neg ? ((0 - raw) & mask) : raw;
    char ref[80], want[80];
    int len = ref_render(neg, mag, f.base, ref);
    int k = 0;
    for (int pad = f.digits - len; pad > 0; pad--) // fixed-width renderers: canonical digits, zero-padded to the type width
        want[k++] = '0';
    memcpy(want + k, ref, len + 1);
    int wl = k + len;
    for (int i = 0; i < wl; i++) // debug_printhex_* write capital letters
        want[i] = (char)upper(want[i]);
    g_capn = 0;
    f.fn(raw);
    int n = g_capn < (int)sizeof g_cap - 1 ? g_capn : (int)sizeof g_cap - 1;
    g_cap[n] = 0;
    seen.lens |= 1ull << (len & 63);
    seen.neg |= neg;
    bool ok = g_capn == wl;
    for (int i = 0; ok && i < wl; i++)
        if (g_cap[i] != want[i])
            ok = false;
    if (!ok)
        mc::violation(mc::fmt("C07.%s.text.%s", f.name, is_min(f.bits, f.sgn, neg, mag) ? "type_min" : neg ? "negative" : "nonnegative"),
                      "%s(%s) emitted \"%s\" (%d chars) want \"%s\"", f.name, valstr(neg, mag).c_str(), vis(g_cap, n).c_str(), g_capn, want);
}

// ---------------------------------------------------------------- a base-b counter: the reference of the 2^32 sweep
struct Counter
{
    int base;
    char d[72]; // digits, most significant first, right-aligned, lower case; d[71] = NUL
    int start;
    void set(uint64_t v, int b)
    {
        base = b;
        char t[80];
        int n = ref_render(false, v, b, t);
        start = 71 - n;
        memcpy(d + start, t, n + 1);
    }
    static char next_digit(char c) { return c == '9' ? 'a' : c + 1; }
    void inc()
    {
        char top = base <= 10 ? '0' + base - 1 : 'a' + base - 11;
        int i = 70;
        for (; i >= start; i--)
        {
            if (d[i] != top)
            {
                d[i] = next_digit(d[i]);
                return;
            }
            d[i] = '0';
        }
        d[--start] = '1';
    }
    const char *text() const { return d + start; }
    int len() const { return 71 - start; }
};

// ================================================================= sub-checks
// The -funsigned-char build (plain char is unsigned on ARM / PowerPC / RISC-V) re-runs a selection of the sub-checks.
static void reg(const char *name, std::function<void()> body)
{
#ifdef VARIANT_UCHAR
    static const char *const SEL[] = {"family32_all_bases", "parse_all_short_strings", "parse_every_terminator_byte", "debug_print_renderers",
                                      "hexascii_digit_helpers"};
    bool in = false;
    for (const char *q : SEL)
        in |= !strcmp(q, name);
    if (!in)
        return;
#endif
    mc::add_check(name, body);
}

MC_INIT
{
    build_families();

    // (1) every 8- and 16-bit value x every base 2..36, through every routine whose type holds the value,
    //     plus the parse round trip
    reg("all_8_16_bit_values_all_bases", [] {
        int c0 = mc::choose(35 * 4);
        int base = 2 + c0 / 4, kind = c0 % 4; // s8 u8 s16 u16
        bool sgn = kind % 2 == 0;
        int bits = kind < 2 ? 8 : 16;
        mc::describe("base %d, every %s%d value, all routines that hold it + round trip", base, sgn ? "int" : "uint", bits);
        mc::nontrivial();
        Seen seen;
        uint64_t calls = 0, nt = 0;
        long lo = sgn ? -(1l << (bits - 1)) : 0, hi = sgn ? (1l << (bits - 1)) - 1 : (1l << bits) - 1;
        for (long v = lo; v <= hi; v++)
        {
            render_all(v < 0, (uint64_t)(v < 0 ? -v : v), base, seen, calls, nt);
            if ((v & 1023) == 0)
                mc::tick();
        }
        emit_seen(seen);
        mc::more_cases(calls - 1, nt);
    });

    // (2) the complete structured 32-bit family x every base
    reg("family32_all_bases", [] {
        int c0 = mc::choose(35 * 4);
        int base = 2 + c0 / 4, part = c0 % 4; // part: as int32 low half / high half, as uint32 low/high
        bool sgn = part < 2;
        size_t n = g_f32.size(), from = (part & 1) ? n / 2 : 0, to = (part & 1) ? n : n / 2;
        mc::describe("base %d, family F32[%zu..%zu) read as %s", base, from, to, sgn ? "int32" : "uint32");
        g_reuse = true;
        mc::nontrivial();
        Seen seen;
        uint64_t calls = 0, nt = 0;
        for (size_t i = from; i < to; i++)
        {
            uint32_t raw = (uint32_t)g_f32[i];
            bool neg = sgn && (raw >> 31);
            uint64_t mag = neg ? (uint64_t)(0 - raw) : raw;
            render_all(neg, mag, base, seen, calls, nt);
            if ((i & 255) == 0)
                mc::tick();
        }
        g_reuse = false;
        emit_seen(seen);
        mc::more_cases(calls - 1, nt);
    });

    // (3) the complete structured 64-bit family x every base
    reg("family64_all_bases", [] {
        const int PARTS = 16;
        int c0 = mc::choose(35 * PARTS);
        int base = 2 + c0 / PARTS, part = c0 % PARTS;
        bool sgn = part < PARTS / 2;
        int slice = part % (PARTS / 2), nsl = PARTS / 2;
        size_t n = g_f64.size(), from = n * slice / nsl, to = n * (slice + 1) / nsl;
        mc::describe("base %d, family F64[%zu..%zu) read as %s", base, from, to, sgn ? "int64" : "uint64");
        mc::nontrivial();
        Seen seen;
        uint64_t calls = 0, nt = 0;
        for (size_t i = from; i < to; i++)
        {
            uint64_t raw = g_f64[i];
            bool neg = sgn && (raw >> 63);
            uint64_t mag = neg ? 0 - raw : raw;
            render_all(neg, mag, base, seen, calls, nt);
            if ((i & 255) == 0)
                mc::tick();
        }
        emit_seen(seen);
        mc::more_cases(calls - 1, nt);
    });

    // (4) 32-bit sweep against a base-b counter. thorough: every one of the 2^32 values; quick: the values whose
    //     bits 12..21 are all zero or all one (2^23 values: both ends of each of the 1024 blocks)
    reg("sweep32_counter_reference", [] {
        int blk = mc::choose(1024);
        bool th = mc::thorough();
        int base = mc::choose(2) ? 16 : 10;
        // quick: all six passes for both bases on the structured subset;
        // thorough: base 10 all six passes (igris + libc shims), base 16 the three igris passes, on every value
        bool full = !th || base == 10;
        uint64_t lo = (uint64_t)blk << 22, hi = lo + (1ull << 22);
        mc::describe("magnitudes [%llu, %llu) base %d: u32toa(m), i32toa(+m), i32toa(-m) + parse back%s%s", (unsigned long long)lo,
                     (unsigned long long)hi, base, full ? ", utoa(m), itoa(+m), itoa(-m)" : "", th ? "" : " (first and last 4096 of the block)");
        mc::nontrivial();
        // one pass per routine (so that a crash is attributed to it); pass = (renderer, parser or none, sign)
        struct Pass
        {
            const Rend *r;
            const Pars *p;
            bool neg;
        };
        const Pass passes[6] = {{&RENDS[6], &PARS[6], false}, {&RENDS[2], &PARS[2], false}, {&RENDS[2], &PARS[2], true},
                                {&RENDS[9], nullptr, false},  {&RENDS[8], nullptr, false},  {&RENDS[8], nullptr, true}};
        uint64_t calls = 0;
        Seen seen;
        for (int pi = 0; pi < (full ? 6 : 3); pi++)
        {
            const Pass &ps = passes[pi];
            for (int seg = 0; seg < (th ? 1 : 2); seg++)
            {
                uint64_t a = th ? lo : (seg == 0 ? lo : hi - 4096), b = th ? hi : a + 4096;
                Counter cnt;
                cnt.set(a, base);
                char neg_text[80];
                neg_text[0] = '-';
                mc::crash_context("C07.%s%s%s.memory", ps.r->name, ps.p ? "+" : "", ps.p ? ps.p->name : "");
                for (uint64_t m = a; m < b; m++, cnt.inc())
                {
                    const char *ref = cnt.text();
                    int len = cnt.len();
                    if ((m & 0xFFFF) == 0)
                    {
                        char chk[80];
                        int l2 = ref_render(false, m, base, chk);
                        if (l2 != len || memcmp(chk, ref, len + 1))
                            mc::harness_error("counter reference %s != division reference %s", ref, chk);
                        mc::tick();
                        seen.lens |= 1ull << len;
                    }
                    if (!fits(32, ps.r->sgn, ps.neg, m) || (ps.neg && !m))
                        continue;
                    if (ps.neg)
                    {
                        memcpy(neg_text + 1, ref, len + 1);
                        ref = neg_text;
                        len++;
                        seen.neg = true;
                    }
                    const char *t = check_render(*ps.r, ps.neg, m, base, ref, len);
                    calls++;
                    if (t && ps.p)
                    {
                        check_parse(*ps.p, t, len, base);
                        calls++;
                    }
                }
            }
        }
        mc::crash_context("C07.harness");
        emit_seen(seen);
        mc::more_cases(calls - 1, calls - 1);
    });

    // (5) every string of length <= 4 over the alphabet (NUL inside = shorter string) followed by each terminator,
    //     bases 2,8,10,16,36, every igris_ato*; base 10 also atol/atoi
    reg("parse_all_short_strings", [] {
        static const char A[17] = {'0', '1', '7', '9', 'a', 'A', 'f', 'F', 'g', 'z', 'Z', '-', '+', ' ', '.', 'x', 0};
        static const char T[6] = {0, ' ', 'x', '.', '-', 'G'};
        static const int B[5] = {2, 8, 10, 16, 36};
        int c0 = mc::choose(5 * 17);
        int base = B[c0 / 17];
        char s[8];
        s[0] = A[c0 % 17];
        mc::describe("base %d, strings starting with '%s' of length <= 4 x 6 terminators", base, vis(s, 1).c_str());
        uint64_t n = 0, nt = 0;
        std::set<std::string> outs;
        for (int i1 = 0; i1 < 17; i1++)
            for (int i2 = 0; i2 < 17; i2++)
                for (int i3 = 0; i3 < 17; i3++)
                    for (int t = 0; t < 6; t++)
                    {
                        s[1] = A[i1];
                        s[2] = A[i2];
                        s[3] = A[i3];
                        s[4] = T[t];
                        s[5] = 0;
                        size_t len = strlen(s);
                        const char *e = exact_copy(s, len);
                        RefParse rp = ref_parse(e, base, true, false, false);
                        bool interesting = rp.ndigits >= 1 && (rp.neg || e[rp.end] != 0);
                        for (int k = 0; k < NPARS; k++)
                        {
                            mc::crash_context("C07.%s.memory", PARS[k].name);
                            check_parse(PARS[k], e, len, base);
                            n++;
                            nt += interesting;
                        }
                        if (base == 10)
                        {
                            RefParse ra = ref_parse(e, 10, true, true, true);
                            mc::crash_context("C07.atol.memory");
                            long l = igc_atol(e);
                            mc::crash_context("C07.atoi.memory");
                            int iv = igc_atoi(e);
                            mc::crash_context("C07.atol.memory.readonly_input");
                            if (igc_atol(ro_twin(e)) != l || igc_atoi(ro_twin(e)) != iv)
                                mc::violation("C07.atol.value_differs_on_readonly_copy", "atol/atoi(\"%s\")", vis(e, len).c_str());
                            n += 2;
                            nt += 2 * interesting;
                            if (!ra.overflow && fits(64, true, ra.neg, ra.mag) && (uint64_t)l != raw_of(ra.neg, ra.mag))
                                mc::violation("C07.atol.value", "atol(\"%s\") = %ld want %s", vis(e, len).c_str(), l, valstr(ra.neg, ra.mag).c_str());
                            if (!ra.overflow && fits(32, true, ra.neg, ra.mag) && (uint64_t)(int64_t)iv != raw_of(ra.neg, ra.mag))
                                mc::violation("C07.atoi.value", "atoi(\"%s\") = %d want %s", vis(e, len).c_str(), iv, valstr(ra.neg, ra.mag).c_str());
                        }
                        if (outs.size() < 64)
                            outs.insert(mc::fmt("end=%zu digits=%d neg=%d", rp.end, rp.ndigits, rp.neg));
                    }
        mc::crash_context("C07.harness");
        for (auto &o : outs)
            mc::outcome(o);
        if (nt)
            mc::nontrivial();
        mc::more_cases(n - 1, nt ? nt - 1 : 0);
    });

    // (6) every byte value 0..255 as the terminator after short digit strings of every base 2..36
    reg("parse_every_terminator_byte", [] {
        int c0 = mc::choose(35 * 2);
        int base = 2 + c0 / 2;
        bool minus = c0 % 2;
        mc::describe("base %d, %sdigit strings of length 1..2 over {0,1,mid,max digit (either case)} x all 256 following bytes", base, minus ? "'-' + " : "");
        // digit alphabet of this base: 0, 1, a middle digit, the largest digit in both cases
        std::vector<char> dg = {'0', '1'};
        auto dch = [](int v, bool up) { return (char)(v < 10 ? '0' + v : (up ? 'A' : 'a') + v - 10); };
        int mid = base / 2, mx = base - 1;
        for (int v : {mid, mx})
            for (int up = 0; up < 2; up++)
            {
                char c = dch(v, up);
                if (std::find(dg.begin(), dg.end(), c) == dg.end())
                    dg.push_back(c);
            }
        uint64_t n = 0, nt = 0;
        std::set<std::string> outs;
        char s[8];
        for (int l = 1; l <= 2; l++)
            for (size_t a = 0; a < dg.size(); a++)
                for (size_t b = 0; b < (l == 2 ? dg.size() : 1); b++)
                    for (int tb = 0; tb < 256; tb++)
                    {
                        int k = 0;
                        if (minus)
                            s[k++] = '-';
                        s[k++] = dg[a];
                        if (l == 2)
                            s[k++] = dg[b];
                        s[k++] = (char)tb;
                        s[k] = 0;
                        size_t len = tb ? k : k - 1;
                        const char *e = exact_copy(s, len);
                        bool term_is_alnum = digit_value(tb) >= 0;
                        for (int q = 0; q < NPARS; q++)
                        {
                            mc::crash_context("C07.%s.memory", PARS[q].name);
                            check_parse(PARS[q], e, len, base);
                            n++;
                            nt += term_is_alnum;
                        }
                        if (outs.size() < 64)
                            outs.insert(mc::fmt("term_alnum=%d digit_of_base=%d", term_is_alnum, digit_value(tb) >= 0 && digit_value(tb) < base));
                    }
        mc::crash_context("C07.harness");
        for (auto &o : outs)
            mc::outcome(o);
        mc::nontrivial();
        mc::more_cases(n - 1, nt - 1);
    });

    // (7) debug_print decimal / hex / binary renderers through a harness-defined debug_putchar
    reg("debug_print_renderers", [] {
        int c0 = mc::choose(NDBG * 4);
        const DbgFn &f = DBG[c0 / 4];
        int part = c0 % 4;
        Seen seen;
        uint64_t n = 0;
        mc::crash_context("C07.%s.memory", f.name);
        if (f.bits <= 16)
        {
            uint64_t cnt = 1ull << f.bits, from = cnt * part / 4, to = cnt * (part + 1) / 4;
            mc::describe("%s on every value in [%llu, %llu)", f.name, (unsigned long long)from, (unsigned long long)to);
            for (uint64_t v = from; v < to; v++, n++)
                check_dbg(f, v, seen);
        }
        else
        {
            const std::vector<uint64_t> &F = f.bits == 32 ? g_f32 : g_f64;
            size_t from = F.size() * part / 4, to = F.size() * (part + 1) / 4;
            mc::describe("%s on F%d[%zu..%zu)", f.name, f.bits, from, to);
            for (size_t i = from; i < to; i++, n++)
            {
                check_dbg(f, F[i], seen);
                if ((i & 1023) == 0)
                    mc::tick();
            }
        }
        mc::crash_context("C07.harness");
        emit_seen(seen);
        if (f.bits >= 8)
            mc::nontrivial();
        mc::more_cases(n ? n - 1 : 0, f.bits >= 8 && n ? n - 1 : 0);
    });

    // (8) hexascii.h digit helpers: hex2half on every hex digit of either case, half2hex on every nibble, hex2byte on every pair
    reg("hexascii_digit_helpers", [] {
        static const char H[] = "0123456789abcdefABCDEF";
        int c0 = mc::choose(22 * 22);
        char hi = H[c0 / 22], lo = H[c0 % 22];
        mc::describe("hex2byte('%c','%c'), hex2half of both, half2hex of their values", hi, lo);
        int vh = digit_value(hi), vl = digit_value(lo);
        if (vh >= 10 || vl >= 10)
            mc::nontrivial();
        mc::outcome(mc::fmt("%d", vh * 16 + vl));
        for (char c : {hi, lo})
        {
            int v = digit_value(c), g = hex2half(c);
            if (g != v)
                mc::violation(c >= 'a' ? "C07.hex2half.value.lower_case" : c >= 'A' ? "C07.hex2half.value.upper_case" : "C07.hex2half.value.decimal",
                              "hex2half('%c') = %d want %d", c, g, v);
            char back = half2hex((uint8_t)v);
            if (lower(back) != lower(c) || hex2half(back) != v)
                mc::violation("C07.half2hex.value", "half2hex(%d) = '%c' (reads back as %d)", v, back, hex2half(back));
        }
        int b = hex2byte(hi, lo);
        if (b != vh * 16 + vl)
            mc::violation((hi >= 'a' || lo >= 'a') ? "C07.hex2byte.value.lower_case" : "C07.hex2byte.value", "hex2byte('%c','%c') = %d want %d", hi, lo, b,
                          vh * 16 + vl);
    });

    // (9) vt100_left: the user of the returned-terminator contract of igris_i32toa
    reg("vt100_left_uses_end_pointer", [] {
        int part = mc::choose(64);
        size_t n = g_f32.size(), from = n * part / 64, to = n * (part + 1) / 64;
        mc::describe("vt100_left(buf, v) for v in F32[%zu..%zu)", from, to);
        mc::nontrivial();
        mc::crash_context("C07.vt100_left.memory");
        Seen seen;
        for (size_t i = from; i < to; i++)
        {
            int v = (int)(uint32_t)g_f32[i];
            char ref[80], want[96];
            bool neg = v < 0;
            uint64_t mag = neg ? (uint64_t)(0 - (uint32_t)v) : (uint32_t)v;
            int len = ref_render(neg, mag, 10, ref);
            int wl = snprintf(want, sizeof want, "\x1B[%sD", ref);
            char *buf = pool(wl + 1);
            memset(buf, 0x55, wl + 1);
            int r = vt100_left(buf, v);
            seen.lens |= 1ull << len;
            seen.neg |= neg;
            if (memcmp(buf, want, wl + 1) != 0 || r != wl)
                mc::violation("C07.vt100_left.text", "vt100_left(%d) wrote \"%s\" returned %d, want \"%s\" and %d", v, vis(buf, wl + 1).c_str(), r,
                              vis(want, wl).c_str(), wl);
        }
        mc::crash_context("C07.harness");
        emit_seen(seen);
        mc::more_cases(to - from - 1, to - from - 1);
    });
}
MC_MAIN
