// C10 (pool part) — fixed-block pools: C API (igris/datastruct/pool.h), igris::pool
// (igris/container/pool.h) and igris::static_object_pool<T,N>: explicit-state BFS to fix-point over
// alloc/free histories against a shadow map of live cells. Built with ASan; every zone / pool object
// is an exactly-sized heap block, so a write outside the zone is a report.
//
// One universe per pool flavour; the first operation picks the configuration (element size x
// capacity), so all configurations are explored by one search (few BFS levels, wide frontiers).
#include "mc.hpp"
#include <algorithm>
#include <cstring>
#include <igris/container/pool.h>
#include <igris/container/static_object_pool.h>
#include <igris/datastruct/pool.h>
#include <map>
#include <memory>
#include <string>
#include <vector>

using std::string;
using std::vector;

static const int MAXCAP = 5;
static int maxcap() { return mc::thorough() ? 5 : 4; }
static inline unsigned char pat(unsigned tag, unsigned j) { return (unsigned char)(0x5B + tag * 37 + j * 11); }

static string ints(const vector<int> &v)
{
    string s;
    for (int x : v)
        s += mc::fmt("%d ", x);
    return s;
}

// ---------------------------------------------------------------- lifetime-observing element type
// (one registry per model; the model that is about to call into a pool makes its registry current)
struct Reg
{
    std::map<const void *, unsigned> alive; // address -> value it was constructed with
    vector<string> errs; // "<failure kind>: <what>" reported by constructors / destructors
    long ctors = 0, dtors = 0;
};
static Reg *g_reg = nullptr;

template <size_t S, size_t Al> struct alignas(Al) Tracked
{
    unsigned char b[S];
    explicit Tracked(unsigned v)
    {
        g_reg->ctors++;
        if (g_reg->alive.count(this))
            g_reg->errs.push_back("lifetime: constructed on top of a live object");
        g_reg->alive[this] = v;
        for (size_t j = 0; j < S; j++)
            b[j] = pat(v, j);
    }
    ~Tracked()
    {
        g_reg->dtors++;
        auto it = g_reg->alive.find(this);
        if (it == g_reg->alive.end())
            g_reg->errs.push_back("lifetime: destructor ran on an object that is not alive");
        else
        {
            // user code runs on the cell here: the object must still be exactly what the constructor wrote
            // (the pool may thread its free-list link through the cell only AFTER the destructor)
            for (size_t j = 0; j < S; j++)
                if (b[j] != pat(it->second, (unsigned)j))
                {
                    g_reg->errs.push_back(mc::fmt("object_overwritten_before_destruction: the destructor found byte %zu of the object changed (constructed %02x)", j,
                                                  pat(it->second, (unsigned)j))); // (the value found is a piece of an address: not printed)
                    break;
                }
            g_reg->alive.erase(it);
        }
        // ... and like a destructor that releases what its members point to, it clears the object: if the pool's link
        // is already in the cell, the free list is cut and the next walk / allocation shows it
        memset(b, 0, S);
    }
    Tracked(const Tracked &) = delete;
};

// ---------------------------------------------------------------- a pool flavour behind one interface
struct Flavour
{
    size_t esz = 0, cap = 0, align = 1;
    char *zone = nullptr;                // the zone the pool is currently bound to
    char *zones[2] = {nullptr, nullptr}; // flavours that can be re-initialised own two exactly-sized zones
    char *zalloc[2] = {nullptr, nullptr};
    int zi = 0;
    virtual ~Flavour()
    {
        delete[] zalloc[0];
        delete[] zalloc[1];
    }
    // off: the zone starts `off` bytes into the heap block (a zone carved out of a char array need not be
    // pointer-aligned); it still ends exactly at the end of the block (ASan sees one byte too far)
    void make_zones(size_t off = 0)
    {
        for (int i = 0; i < 2; i++)
        {
            zalloc[i] = new char[off + esz * cap];
            memset(zalloc[i], 0xEE, off + esz * cap);
            zones[i] = zalloc[i] + off;
        }
        zone = zones[zi = 0];
    }
    // re-initialisation of the SAME pool object: other=false on the zone it is bound to, other=true on the second zone.
    // Afterwards every block handed out before is gone and the full capacity is available again.
    virtual bool can_reinit() { return false; }
    virtual void reinit(bool other) { (void)other; }
    virtual void *get(unsigned tag) = 0; // allocate (and construct with `tag`)
    virtual void put(void *p) = 0;       // (destroy and) free
    // the free list (anchors: pool.h:7-10). nullptr when it cannot be reached through public names (igris::pool keeps
    // it private; with -DC10_PUBLIC_ONLY the harness does not name private members and probes instead, see probe())
    virtual struct pool_head *head() = 0;
    // flavour-specific observers after every call; returns "" or what disagrees
    virtual string observers(const vector<int> &live_tag) = 0;
    virtual string counts(size_t nlive) = 0; // the counters only (large capacities: the rest is quadratic)
    virtual bool typed() { return false; }
};

struct CFlavour : Flavour
{
    struct pool_head h;
    CFlavour(size_t e, size_t c, size_t off = 0)
    {
        esz = e;
        cap = c;
        make_zones(off);
        pool_init(&h);
        pool_engage(&h, zone, e * c, e);
    }
    bool can_reinit() override { return true; }
    void reinit(bool other) override
    {
        if (other)
            zone = zones[zi ^= 1];
        pool_init(&h);
        pool_engage(&h, zone, esz * cap, esz);
    }
    void *get(unsigned) override { return pool_alloc(&h); }
    void put(void *p) override { pool_free(&h, p); }
    struct pool_head *head() override { return &h; }
    string counts(size_t nl) override
    {
        if (pool_avail(&h) != cap - nl)
            return mc::fmt("count: pool_avail()=%zu, capacity %zu - live %zu = %zu", pool_avail(&h), cap, nl, cap - nl);
        return "";
    }
    string observers(const vector<int> &lt) override
    {
        size_t nl = 0;
        for (int t : lt)
            nl += t >= 0;
        if (pool_avail(&h) != cap - nl)
            return mc::fmt("count: pool_avail()=%zu, capacity %zu - live %zu = %zu", pool_avail(&h), cap, nl, cap - nl);
        for (size_t i = 0; i < cap; i++)
            if ((pool_in_freelist(&h, zone + i * esz) != 0) != (lt[i] < 0))
                return mc::fmt("membership: pool_in_freelist(cell %zu)=%d but the cell is %s", i, pool_in_freelist(&h, zone + i * esz), lt[i] < 0 ? "free" : "live");
        return "";
    }
};

struct XFlavour : Flavour
{
    igris::pool p;
    XFlavour(size_t e, size_t c, size_t off = 0)
    {
        esz = e;
        cap = c;
        make_zones(off);
        p.init(zone, e * c, e);
    }
    bool can_reinit() override { return true; }
    void reinit(bool other) override
    {
        if (other)
            zone = zones[zi ^= 1];
        p.init(zone, esz * cap, esz);
    }
    void *get(unsigned) override { return p.get(); }
    void put(void *q) override { p.put(q); }
#ifndef C10_PUBLIC_ONLY
    struct pool_head *head() override { return &p.head; } // private member: needs -fno-access-control
#else
    struct pool_head *head() override { return nullptr; }
#endif
    string counts(size_t nl) override
    {
        if (p.size() != cap || p.element_size() != esz)
            return mc::fmt("geometry: size()=%zu element_size()=%zu, configured %zu x %zu", p.size(), p.element_size(), cap, esz);
        if (p.avail() != cap - nl || p.room() != cap - nl)
            return mc::fmt("count: avail()=%zu room()=%zu, capacity %zu - live %zu = %zu", p.avail(), p.room(), cap, nl, cap - nl);
        // spot checks of the cell map (the full map is quadratic)
        if (p.cell_is_allocated(-1) || p.cell_is_allocated((int)cap))
            return "membership: cell_is_allocated() true outside 0..capacity-1";
        return "";
    }
    string observers(const vector<int> &lt) override
    {
        size_t nl = 0;
        for (int t : lt)
            nl += t >= 0;
        if (p.size() != cap || p.element_size() != esz)
            return mc::fmt("geometry: size()=%zu element_size()=%zu, configured %zu x %zu", p.size(), p.element_size(), cap, esz);
        if (p.avail() != cap - nl || p.room() != cap - nl)
            return mc::fmt("count: avail()=%zu room()=%zu, capacity %zu - live %zu = %zu", p.avail(), p.room(), cap, nl, cap - nl);
        for (int i = -1; i <= (int)cap; i++)
        {
            bool want = i >= 0 && i < (int)cap && lt[i] >= 0;
            if (p.cell_is_allocated(i) != want)
                return mc::fmt("membership: cell_is_allocated(%d)=%d, shadow says %d", i, p.cell_is_allocated(i), want);
        }
        vector<int> seen, want;
        for (size_t i = 0; i < cap; i++)
            if (lt[i] >= 0)
                want.push_back((int)i);
        int guard = 0;
        for (auto it = p.begin(); it != p.end(); ++it)
        {
            char *q = (char *)*it;
            seen.push_back(q >= zone && q < zone + esz * cap && (q - zone) % esz == 0 ? (int)((q - zone) / esz) : -1);
            if (++guard > (int)cap + 1)
                break;
        }
        if (seen != want)
            return mc::fmt("iteration: begin()..end() visits cells [%s], live cells are [%s]", ints(seen).c_str(), ints(want).c_str());
        return "";
    }
};

template <class T, size_t N> struct SFlavour : Flavour
{
    typedef igris::static_object_pool<T, N> P;
    P *p;
    SFlavour()
    {
        p = new P; // exactly-sized heap object: head + storage
        esz = sizeof(typename P::storage_type);
        cap = N;
        align = alignof(T);
        zone = (char *)p->storage.data();
    }
    ~SFlavour()
    {
        delete p;
    }
    void *get(unsigned tag) override { return p->create(tag); }
    void put(void *q) override { p->destroy((T *)q); }
    struct pool_head *head() override { return p->freelist(); }
    bool typed() override { return true; }
    string counts(size_t nl) override
    {
        if (p->avail() != cap - nl)
            return mc::fmt("count: avail()=%zu, capacity %zu - live %zu = %zu", p->avail(), cap, nl, cap - nl);
        return "";
    }
    string observers(const vector<int> &lt) override
    {
        size_t nl = 0;
        for (int t : lt)
            nl += t >= 0;
        if (p->avail() != cap - nl)
            return mc::fmt("count: avail()=%zu, capacity %zu - live %zu = %zu", p->avail(), cap, nl, cap - nl);
        if (esz < sizeof(T) || esz % alignof(T))
            return mc::fmt("geometry: cell size %zu for sizeof(T)=%zu alignof(T)=%zu", esz, sizeof(T), alignof(T));
        // lifetime: exactly the live cells hold a constructed object, constructed with the value the model passed
        if (g_reg->alive.size() != nl)
            return mc::fmt("lifetime: %zu objects alive, %zu cells live", g_reg->alive.size(), nl);
        for (size_t i = 0; i < cap; i++)
            if (lt[i] >= 0)
            {
                auto it = g_reg->alive.find(zone + i * esz);
                if (it == g_reg->alive.end() || it->second != (unsigned)lt[i])
                    return mc::fmt("lifetime: cell %zu is live but no object constructed with %d lives there", i, lt[i]);
            }
        return "";
    }
};

// Free-list order through the public API only ("allocation probing"): take blocks until the pool answers null, then
// give them back in reverse order (which restores a LIFO free list exactly). Checks what the walk checks, from the
// caller's side: exactly capacity - live successes, every one a free cell of the zone on the grid, no cell twice.
static bool probe(Flavour *f, const vector<int> &live_tag, vector<int> &order, string &why)
{
    order.clear();
    size_t nlive = 0;
    for (int t : live_tag)
        nlive += t >= 0;
    size_t expect = f->cap - nlive;
    vector<char *> got;
    vector<char> taken(f->cap, 0);
    bool ok = true;
    for (size_t i = 0; i <= expect && ok; i++)
    {
        char *q = (char *)f->get(0);
        if (!q)
            break;
        if (q < f->zone || q + f->esz > f->zone + f->esz * f->cap || (q - f->zone) % f->esz)
        {
            why = mc::fmt("free-list entry #%zu is not a cell of the zone (probe: allocation #%zu returned zone%+ld)", i, i + 1, (long)(q - f->zone));
            ok = false;
            break;
        }
        int cell = (int)((q - f->zone) / f->esz);
        if (live_tag[cell] >= 0 || taken[cell])
        {
            why = mc::fmt("free list is longer than the capacity (cycle) (probe: allocation #%zu returned cell %d which is %s)", i + 1, cell,
                          taken[cell] ? "already taken" : "live");
            ok = false;
            break;
        }
        taken[cell] = 1;
        got.push_back(q);
        order.push_back(cell);
    }
    if (ok && got.size() != expect)
    {
        why = mc::fmt("probe: %zu successful allocations, capacity %zu - live %zu = %zu", got.size(), f->cap, nlive, expect);
        ok = false;
    }
    for (size_t i = got.size(); i-- > 0;)
        f->put(got[i]);
    return ok;
}

struct Conf
{
    string name;
    size_t data; // bytes of a live cell the caller owns
    std::function<Flavour *()> make;
    size_t cap = 99; // cells (the two-pool universes use the small ones)
};

// ---------------------------------------------------------------- what a model offers to the two-pools universe
typedef std::pair<const char *, const char *> Range;
struct PairAble : mc::Model
{
    string sfx;        // appended to the flavour name in signatures ("_pair" in the two-pools universes)
    unsigned inst = 0; // which of the two pools
    virtual bool is_init(int o) = 0;   // op chooses the configuration
    virtual bool pair_conf(int o) = 0; // ... and the configuration is small enough for the product search
    virtual bool configured() = 0;
    virtual string recheck() = 0; // everything observable about this pool against its shadow: "" or "<kind>: what"
    virtual void live_ranges(vector<Range> &out) = 0;
};

// ---------------------------------------------------------------- the model
struct PoolModel : PairAble
{
    string flav; // c_pool | cxx_pool | static_object_pool
    vector<Conf> confs;
    bool has_put_null;
    int conf = -1;
    std::unique_ptr<Flavour> f;
    vector<int> live_tag; // per cell: -1 free, else the tag it was filled / constructed with
    size_t data = 0;

    Reg reg;

    bool has_reinit; // the flavour can be initialised again (C API: pool_init + pool_engage; igris::pool::init)

    PoolModel(const string &fl, vector<Conf> c, bool pn, bool ri) : flav(fl), confs(std::move(c)), has_put_null(pn), has_reinit(ri) {}
    ~PoolModel()
    {
        // objects still alive are not destroyed (the pool does not own them); the registry goes with the model
        f.reset();
        if (g_reg == &reg)
            g_reg = nullptr;
    }

    // configurations [0, nconf()) are chosen by the first ops of the table; configurations added later
    // (element sizes that are not multiples of the link alignment) are chosen by ops at the END of the table,
    // so that recorded cases keep their operation numbers
    int nprimary = -1;
    int nconf() { return nprimary >= 0 ? nprimary : (int)confs.size(); }
    int nextra() { return (int)confs.size() - nconf(); }
    int base_ops() { return nconf() + 1 + MAXCAP + (has_put_null ? 1 : 0) + (has_reinit ? 2 : 0); }
    // op table: init[conf]... | get | put(cell 0..MAXCAP-1) | [put(NULL)] | [re-init same zone, re-init second zone]
    int nops() override { return base_ops() + nextra(); }
    const char *reinitname() { return flav == "c_pool" ? "pool_init+pool_engage" : "init"; }
    const char *getname() { return flav == "c_pool" ? "pool_alloc" : flav == "cxx_pool" ? "get" : "create"; }
    const char *putname() { return flav == "c_pool" ? "pool_free" : flav == "cxx_pool" ? "put" : "destroy"; }
    string opname(int o) override
    {
        if (o >= base_ops())
            return "init[" + confs[nconf() + o - base_ops()].name + "]";
        if (o < nconf())
            return "init[" + confs[o].name + "]";
        o -= nconf();
        if (o == 0)
            return mc::fmt("%s()", getname());
        o -= 1;
        if (o < MAXCAP)
            return mc::fmt("%s(cell %d)", putname(), o);
        o -= MAXCAP;
        if (has_put_null && o == 0)
            return "put(NULL)";
        o -= has_put_null ? 1 : 0;
        return mc::fmt("%s again on %s", reinitname(), o == 0 ? "the same zone" : "a second zone");
    }

    int nlive()
    {
        int n = 0;
        for (int t : live_tag)
            n += t >= 0;
        return n;
    }
    // bounded walk of the free list: every entry is a free cell of the zone, on the grid, at most `cap` entries
    bool walk(vector<int> &order, string &why)
    {
        order.clear();
        if (!f->head())
            return probe(f.get(), live_tag, order, why);
        struct slist_head *hd = &f->head()->free_blocks;
        for (struct slist_head *it = hd->next; it != hd; it = it->next)
        {
            char *c = (char *)it;
            if (c < f->zone || c >= f->zone + f->esz * f->cap || (c - f->zone) % f->esz)
            {
                why = mc::fmt("free-list entry #%zu is not a cell of the zone", order.size());
                return false;
            }
            int cell = (int)((c - f->zone) / f->esz);
            if (order.size() >= f->cap)
            {
                why = "free list is longer than the capacity (cycle)";
                return false;
            }
            order.push_back(cell);
        }
        return true;
    }
    string sig(const char *cls, const char *kind) { return "C10." + flav + sfx + "." + cls + "." + kind; }
    bool is_init(int o) override { return o < nconf() || o >= base_ops(); }
    int conf_of(int o) { return o < nconf() ? o : nconf() + o - base_ops(); }
    bool pair_conf(int o) override { return is_init(o) && confs[conf_of(o)].cap <= (size_t)(mc::thorough() ? 3 : 2); }
    bool configured() override { return conf >= 0; }
    void live_ranges(vector<Range> &out) override
    {
        if (conf < 0)
            return;
        for (size_t i = 0; i < f->cap; i++)
            if (live_tag[i] >= 0)
                out.push_back({f->zone + i * f->esz, f->zone + (i + 1) * f->esz});
    }
    string recheck() override
    {
        if (conf < 0)
            return "";
        g_reg = &reg;
        vector<int> ord;
        return observe_all(ord);
    }
    // everything observable against the shadow; "" or "<kind>: what"
    string observe_all(vector<int> &ord)
    {
        string why;
        if (!g_reg->errs.empty())
            return g_reg->errs[0];
        if (!walk(ord, why))
            return "free_list_corrupt: " + why;
        for (int c : ord)
            if (live_tag[c] >= 0)
                return mc::fmt("live_cell_on_free_list: live cell %d is on the free list", c);
        for (size_t i = 0; i < f->cap; i++)
        {
            if (live_tag[i] < 0)
                continue;
            for (size_t j = 0; j < data; j++)
                if ((unsigned char)f->zone[i * f->esz + j] != pat((unsigned)live_tag[i], (unsigned)j))
                    return mc::fmt("contents: live cell %zu changed at byte %zu (%02x, written %02x)", i, j, (unsigned char)f->zone[i * f->esz + j],
                                   pat((unsigned)live_tag[i], (unsigned)j));
        }
        return f->observers(live_tag);
    }
    string state_str()
    {
        vector<int> ord;
        string why;
        bool ok = walk(ord, why);
        string s = "free list [" + ints(ord) + (ok ? "] live [" : "...CORRUPT] live [");
        for (size_t i = 0; i < live_tag.size(); i++)
            if (live_tag[i] >= 0)
                s += mc::fmt("%zu ", i);
        return s + "]";
    }
    bool apply(int o) override
    {
        g_reg = &reg;
        int o0 = o;
        if (o < nconf() || o >= base_ops())
        {
            if (conf >= 0)
                return false;
            if (o >= base_ops())
                o = nconf() + o - base_ops();
            conf = o;
            mc::crash_context("C10.%s.init", flav.c_str());
            f.reset(confs[o].make());
            data = confs[o].data;
            live_tag.assign(f->cap, -1);
            return after("init", o0);
        }
        if (conf < 0)
            return false;
        o -= nconf();
        if (o == 0)
        {
            int nl = nlive();
            bool full = nl == (int)f->cap;
            const char *cls = full ? "get_exhausted" : "get";
            mc::crash_context("C10.%s.%s", flav.c_str(), cls);
            // tag = the cell the free list offers next (a label only: keeps the tag a function of the cell, so that
            // the state is just free-list order + live set); cap when the list is empty
            unsigned tag = (unsigned)f->cap;
            {
                vector<int> ord;
                string why;
                if (walk(ord, why) && !ord.empty())
                    tag = (unsigned)ord[0];
            }
            tag += 64 * inst; // the two pools of a pair write different patterns
            long c0 = g_reg->ctors;
            char *q = (char *)f->get(tag);
            if (full)
                mc::nontrivial(); // the N+1st request
            if (!q)
            {
                if (!full)
                {
                    mc::violation(sig(cls, "null_before_capacity"), "%s returned null with %d of %zu cells live; %s", opname(o0).c_str(), nl, f->cap, state_str().c_str());
                    return true;
                }
                if (g_reg->ctors != c0)
                {
                    mc::violation(sig(cls, "lifetime"), "create() returned null but ran a constructor");
                    return true;
                }
                mc::outcome("null");
                return after(cls, o0);
            }
            if (q < f->zone || q + f->esz > f->zone + f->esz * f->cap)
            {
                mc::violation(sig(cls, "outside_zone"), "%s returned a block at zone%+ld, zone is %zu bytes", opname(o0).c_str(), (long)(q - f->zone), f->esz * f->cap);
                return true;
            }
            if ((q - f->zone) % f->esz || (uintptr_t)q % f->align)
            {
                mc::violation(sig(cls, "off_grid"), "%s returned zone+%ld: not on the %zu-byte element grid / not aligned to %zu", opname(o0).c_str(), (long)(q - f->zone),
                              f->esz, f->align);
                return true;
            }
            int cell = (int)((q - f->zone) / f->esz);
            if (live_tag[cell] >= 0)
            {
                mc::violation(sig(cls, "overlap"), "%s returned cell %d which is live (%d of %zu live); %s", opname(o0).c_str(), cell, nl, f->cap, state_str().c_str());
                return true;
            }
            if (f->typed())
            {
                if (g_reg->ctors != c0 + 1)
                {
                    mc::violation(sig(cls, "lifetime"), "create() ran %ld constructors", g_reg->ctors - c0);
                    return true;
                }
            }
            else
                for (size_t j = 0; j < data; j++)
                    q[j] = (char)pat(tag, (unsigned)j);
            live_tag[cell] = (int)tag;
            mc::outcome(mc::fmt("cell %d", cell));
            return after(cls, o0);
        }
        o -= 1;
        if (o < MAXCAP)
        {
            if (o >= (int)f->cap || live_tag[o] < 0)
                return false; // double free / foreign pointer: outside the contract
            mc::crash_context("C10.%s.put", flav.c_str());
            long d0 = g_reg->dtors;
            live_tag[o] = -1;
            f->put(f->zone + o * f->esz);
            if (f->typed() && g_reg->dtors != d0 + 1)
            {
                mc::violation(sig("put", "lifetime"), "destroy() ran %ld destructors", g_reg->dtors - d0);
                return true;
            }
            return after("put", o0);
        }
        o -= MAXCAP;
        if (has_put_null && o == 0)
        {
            // put(NULL): documented no-op of igris::pool
            mc::crash_context("C10.%s.put_null", flav.c_str());
            f->put(nullptr);
            return after("put_null", o0);
        }
        o -= has_put_null ? 1 : 0;
        // re-initialisation of the same pool object, with blocks out or not. The reference forgets every block handed
        // out before (the harness never touches them again): the full capacity is available, in the bound zone.
        if (!has_reinit || !f->can_reinit())
            return false;
        bool other = o == 1;
        const char *cls = other ? "reinit_other_zone" : "reinit_same_zone";
        mc::crash_context("C10.%s.%s", flav.c_str(), cls);
        if (nlive() > 0)
            mc::nontrivial(); // reset while blocks are out
        f->reinit(other);
        live_tag.assign(f->cap, -1);
        return after(cls, o0);
    }

    bool after(const char *cls, int o)
    {
        vector<int> ord;
        string w = observe_all(ord);
        if (!w.empty())
        {
            mc::violation(sig(cls, w.substr(0, w.find(':')).c_str()), "after %s: %s; %s", opname(o).c_str(), w.c_str(), state_str().c_str());
            return true;
        }
        // history-dependent free-list order: not the order any alloc-only history leaves behind
        // (pool_engage pushes cells 0..cap-1, so a pristine list is cap-1, cap-2, ... in descending order)
        for (size_t i = 1; i < ord.size(); i++)
            if (ord[i] > ord[i - 1])
            {
                mc::nontrivial();
                break;
            }
        return true;
    }

    string key() override
    {
        if (conf < 0)
            return "unconfigured";
        vector<int> ord;
        string why;
        bool ok = walk(ord, why);
        string k = mc::fmt("%d%c|", conf, 'A' + f->zi) + ints(ord) + (ok ? "|" : "!|");
        for (int t : live_tag)
            k += t >= 0 ? 'L' : 'f';
        // tags are state-derived but depend on the order of allocation: part of the reference state
        for (int t : live_tag)
            k += mc::fmt(",%d", t);
        return k;
    }
};

template <class T, size_t N> static Conf sconf(const char *tn)
{
    return Conf{mc::fmt("%s x %zu", tn, N), sizeof(T), [] { return (Flavour *)new SFlavour<T, N>; }, N};
}
template <class T> static void sconfs(vector<Conf> &v, const char *tn, int mx)
{
    v.push_back(sconf<T, 1>(tn));
    v.push_back(sconf<T, 2>(tn));
    v.push_back(sconf<T, 3>(tn));
    v.push_back(sconf<T, 4>(tn));
    if (mx >= 5)
        v.push_back(sconf<T, 5>(tn));
}

// ---------------------------------------------------------------- large capacities (tree shape)
// The BFS universes stop at 5 cells; a counter or loop index narrowed to 8 or 16 bits is only visible with
// capacities around 2^8 / 2^16. One case = one (flavour, capacity, element size, free order): allocate until
// null, free everything in that order, allocate everything again; the counters are compared with the shadow at
// the boundary counts, every returned block is checked against a bitmap of live cells.
static const size_t CAPS_Q[] = {127, 128, 255, 256, 257, 300, 1000};
static const size_t CAPS_T[] = {127, 128, 255, 256, 257, 300, 1000, 65536, 70000};
static const size_t ES_L[] = {8, 12, 24};
static const char *ORD[] = {"lifo", "fifo", "stride7"};

static bool boundary(size_t n, size_t cap)
{
    static const size_t B[] = {0, 1, 254, 255, 256, 257, 32766, 32767, 32768, 32769, 65534, 65535, 65536, 65537};
    for (size_t b : B)
        if (n == b)
            return true;
    return n == cap || n + 1 == cap;
}

struct Large
{
    string flav;
    Flavour *f;
    size_t cap;
    vector<int> live_tag; // per cell: -1 free, else tag
    vector<int> order;    // cells in the order they were handed out
    size_t nlive = 0;
    size_t data;
    Reg reg;
    bool failed = false;

    string sig(const char *phase, const string &kind) { return "C10." + flav + ".large." + phase + "." + kind; }
    void fail(const char *phase, const string &kind, const string &what)
    {
        mc::violation(sig(phase, kind), "%s (capacity %zu, element %zu, %zu live)", what.c_str(), cap, f->esz, nlive);
        failed = true;
    }
    // bounded walk of the free list: exactly cap - nlive entries, all of them cells of the zone
    string count_walk()
    {
        if (!f->head())
        {
            vector<int> ord;
            string why;
            if (!probe(f, live_tag, ord, why))
                return (why.compare(0, 6, "probe:") == 0 ? "count: " : "free_list_corrupt: ") + why;
            return "";
        }
        struct slist_head *hd = &f->head()->free_blocks;
        size_t n = 0;
        for (struct slist_head *it = hd->next; it != hd; it = it->next)
        {
            char *c = (char *)it;
            if (c < f->zone || c >= f->zone + f->esz * cap || (c - f->zone) % f->esz)
                return mc::fmt("free_list_corrupt: free-list entry #%zu is not a cell of the zone", n);
            if (live_tag[(c - f->zone) / f->esz] >= 0)
                return mc::fmt("live_cell_on_free_list: live cell %ld is on the free list", (long)((c - f->zone) / f->esz));
            if (++n > cap)
                return "free_list_corrupt: free list is longer than the capacity (cycle)";
        }
        if (n != cap - nlive)
            return mc::fmt("count: the free list holds %zu cells, capacity %zu - live %zu = %zu", n, cap, nlive, cap - nlive);
        return "";
    }
    void observe(const char *phase)
    {
        if (failed)
            return;
        string w = reg.errs.empty() ? count_walk() : reg.errs[0];
        if (w.empty())
            w = cap <= 1000 ? f->observers(live_tag) : f->counts(nlive);
        if (!w.empty())
            fail(phase, w.substr(0, w.find(':')), w);
    }
    bool contents(const char *phase, int cell)
    {
        for (size_t j = 0; j < data; j++)
            if ((unsigned char)f->zone[cell * f->esz + j] != pat((unsigned)live_tag[cell], (unsigned)j))
            {
                fail(phase, "contents", mc::fmt("live cell %d changed at byte %zu", cell, j));
                return false;
            }
        return true;
    }
    void fill_all(const char *phase)
    {
        order.clear();
        for (size_t i = 0; i < cap && !failed; i++)
        {
            unsigned tag = (unsigned)(i * 2654435761u) >> 8;
            long c0 = reg.ctors;
            char *q = (char *)f->get(tag);
            if (!q)
                return fail(phase, "null_before_capacity", mc::fmt("request #%zu returned null", i + 1));
            if (q < f->zone || q + f->esz > f->zone + f->esz * cap)
                return fail(phase, "outside_zone", mc::fmt("request #%zu returned zone%+ld, zone is %zu bytes", i + 1, (long)(q - f->zone), f->esz * cap));
            if ((q - f->zone) % f->esz || (uintptr_t)q % f->align)
                return fail(phase, "off_grid", mc::fmt("request #%zu returned zone+%ld", i + 1, (long)(q - f->zone)));
            int cell = (int)((q - f->zone) / f->esz);
            if (live_tag[cell] >= 0)
                return fail(phase, "overlap", mc::fmt("request #%zu returned cell %d which is live", i + 1, cell));
            if (f->typed())
            {
                if (reg.ctors != c0 + 1)
                    return fail(phase, "lifetime", mc::fmt("create() ran %ld constructors", reg.ctors - c0));
            }
            else
                for (size_t j = 0; j < data; j++)
                    q[j] = (char)pat(tag, (unsigned)j);
            live_tag[cell] = (int)tag;
            order.push_back(cell);
            nlive++;
            if (boundary(nlive, cap) || !reg.errs.empty())
                observe(phase);
        }
        if (failed)
            return;
        // the capacity+1st request
        long c0 = reg.ctors;
        char *q = (char *)f->get(0);
        if (q)
        {
            bool inzone = q >= f->zone && q + f->esz <= f->zone + f->esz * cap;
            return fail("exhausted", inzone ? "overlap" : "outside_zone", mc::fmt("request #%zu (capacity + 1) returned zone%+ld instead of null", cap + 1, (long)(q - f->zone)));
        }
        if (reg.ctors != c0)
            return fail("exhausted", "lifetime", "create() returned null but ran a constructor");
        observe("exhausted");
        for (size_t i = 0; i < cap && !failed; i++)
            contents(phase, (int)i);
    }
    void free_all(int ord)
    {
        vector<int> seq;
        if (ord == 0)
            seq.assign(order.rbegin(), order.rend());
        else if (ord == 1)
            seq = order;
        else
            for (size_t s0 = 0; s0 < 7; s0++)
                for (size_t i = s0; i < order.size(); i += 7)
                    seq.push_back(order[i]);
        string ph = string("free_") + ORD[ord];
        for (int cell : seq)
        {
            if (failed)
                return;
            if (!contents(ph.c_str(), cell))
                return;
            long d0 = reg.dtors;
            live_tag[cell] = -1;
            nlive--;
            f->put(f->zone + (size_t)cell * f->esz);
            if (f->typed() && reg.dtors != d0 + 1)
                return fail(ph.c_str(), "lifetime", mc::fmt("destroy() ran %ld destructors", reg.dtors - d0));
            if (boundary(nlive, cap) || !reg.errs.empty())
                observe(ph.c_str());
        }
    }
    void run(int ord)
    {
        g_reg = &reg;
        live_tag.assign(cap, -1);
        mc::crash_context("C10.%s.large.fill", flav.c_str());
        observe("fill"); // 0 live
        fill_all("fill");
        mc::crash_context("C10.%s.large.free_%s", flav.c_str(), ORD[ord]);
        if (!failed)
            free_all(ord);
        mc::crash_context("C10.%s.large.refill", flav.c_str());
        if (!failed)
            fill_all("refill");
        mc::nontrivial(); // every case crosses the 2^7 / 2^8 (/ 2^16) counts in both directions
        mc::outcome(mc::fmt("%s %zu %s", flav.c_str(), cap, failed ? "violation" : "ok"));
        g_reg = nullptr;
    }
};

template <class T, size_t N> static void large_static(int ord, const char *tn)
{
    mc::describe("static_object_pool<%s,%zu>, free order %s", tn, N, ORD[ord]);
    Large L;
    L.flav = "static_object_pool";
    g_reg = &L.reg;
    SFlavour<T, N> fl;
    L.f = &fl;
    L.cap = N;
    L.data = sizeof(T);
    L.run(ord);
}

// ---------------------------------------------------------------- one long history on ONE pool object
// >= 70000 (thorough 300000) allocate / free operations on the same pool at varying fill levels: state hidden in the
// object that only misbehaves after 2^8 / 2^16 operations (a generation counter, a statistics field used in a test).
// The counters are compared after every operation, the complete observation every 61 operations and at empty / full
// (capacity 70000: every 257 / 4099 operations).
static void long_history(Large &L, const char *what)
{
    long nops = mc::thorough() ? 300000 : 70000;
    mc::describe("%s, %zu cells: one history of %ld allocate/free operations", what, L.cap, nops);
    g_reg = &L.reg;
    L.live_tag.assign(L.cap, -1);
    Flavour *f = L.f;
    vector<int> livecells;
    static const unsigned PA[] = {75, 25, 50, 95, 10, 60};
    mc::crash_context("C10.%s.long_history", L.flav.c_str());
    for (long i = 0; i < nops && !L.failed; i++)
    {
        unsigned r = (unsigned)(i * 2654435761u) >> 12;
        unsigned r2 = (unsigned)((i + 17) * 40503u) >> 3;
        bool alloc = r % 100 < PA[(i / 1009) % 6] || livecells.empty();
        if (alloc)
        {
            unsigned tag = (unsigned)(i % 1000003);
            long c0 = L.reg.ctors;
            char *q = (char *)f->get(tag);
            if (L.nlive == L.cap)
            {
                if (q)
                    L.fail("long_history", "overlap", mc::fmt("operation %ld: request on the exhausted pool returned zone%+ld instead of null", i, (long)(q - f->zone)));
                else if (L.reg.ctors != c0)
                    L.fail("long_history", "lifetime", "create() returned null but ran a constructor");
            }
            else if (!q)
                L.fail("long_history", "null_before_capacity", mc::fmt("operation %ld: request returned null", i));
            else if (q < f->zone || q + f->esz > f->zone + f->esz * L.cap || (q - f->zone) % f->esz || (uintptr_t)q % f->align)
                L.fail("long_history", "outside_zone", mc::fmt("operation %ld: request returned zone%+ld", i, (long)(q - f->zone)));
            else
            {
                int cell = (int)((q - f->zone) / f->esz);
                if (L.live_tag[cell] >= 0)
                    L.fail("long_history", "overlap", mc::fmt("operation %ld: request returned cell %d which is live", i, cell));
                else
                {
                    if (f->typed() ? L.reg.ctors != c0 + 1 : false)
                        L.fail("long_history", "lifetime", mc::fmt("create() ran %ld constructors", L.reg.ctors - c0));
                    if (!f->typed())
                        for (size_t j = 0; j < L.data; j++)
                            q[j] = (char)pat(tag, (unsigned)j);
                    L.live_tag[cell] = (int)tag;
                    livecells.push_back(cell);
                    L.nlive++;
                }
            }
        }
        else
        {
            size_t k = r2 % livecells.size();
            int cell = livecells[k];
            livecells[k] = livecells.back();
            livecells.pop_back();
            if (!L.contents("long_history", cell))
                break;
            long d0 = L.reg.dtors;
            L.live_tag[cell] = -1;
            L.nlive--;
            f->put(f->zone + (size_t)cell * f->esz);
            if (f->typed() && L.reg.dtors != d0 + 1)
                L.fail("long_history", "lifetime", mc::fmt("destroy() ran %ld destructors", L.reg.dtors - d0));
        }
        if (L.failed)
            break;
        // (every operation already checks the block itself; walking the free list costs O(free cells))
        long every_full = L.cap > 1000 ? 4099 : 61, every_count = L.cap > 1000 ? 257 : 1;
        if (i % every_full == 0 || L.nlive == 0 || L.nlive == L.cap || !L.reg.errs.empty())
            L.observe("long_history");
        else if (i % every_count == 0)
        {
            string w = f->counts(L.nlive);
            if (!w.empty())
                L.fail("long_history", w.substr(0, w.find(':')), mc::fmt("operation %ld: ", i) + w);
        }
    }
    mc::more_cases((uint64_t)nops - 1, (uint64_t)nops - 1);
    mc::nontrivial();
    mc::outcome(mc::fmt("%s %zu %s", L.flav.c_str(), L.cap, L.failed ? "violation" : "ok"));
    g_reg = nullptr;
}
template <class T, size_t N> static void long_static(const char *tn)
{
    Large L;
    L.flav = "static_object_pool";
    g_reg = &L.reg;
    SFlavour<T, N> fl;
    L.f = &fl;
    L.cap = N;
    L.data = sizeof(T);
    long_history(L, mc::fmt("static_object_pool<%s,%zu>", tn, N).c_str());
}

// ---------------------------------------------------------------- C pool fed from several zones
// pool_engage() may be called again on a head that is in use (a paged pool adds a zone when it runs dry, or
// earlier): the capacity becomes the sum of the engaged zones, nothing that is on the free list may be lost.
struct MultiZone
{
    struct pool_head h;
    size_t esz;
    vector<size_t> zn;    // cells per zone
    vector<char *> zmem;  // exactly-sized heap blocks (ASan)
    vector<size_t> zbase; // global index of the zone's first cell
    vector<char> engaged;
    vector<int> live_tag; // per global cell: -1 free / not engaged, else tag
    size_t nlive = 0;
    unsigned tag_bias = 0;

    MultiZone(size_t e, const vector<size_t> &cells) : esz(e), zn(cells)
    {
        size_t base = 0;
        for (size_t n : zn)
        {
            char *m = new char[n * esz];
            memset(m, 0xEE, n * esz);
            zmem.push_back(m);
            zbase.push_back(base);
            base += n;
        }
        engaged.assign(zn.size(), 0);
        live_tag.assign(base, -1);
        pool_init(&h);
    }
    ~MultiZone()
    {
        for (char *m : zmem)
            delete[] m;
    }
    MultiZone(const MultiZone &) = delete;
    size_t total() { return live_tag.size(); }
    size_t capacity()
    {
        size_t c = 0;
        for (size_t z = 0; z < zn.size(); z++)
            c += engaged[z] ? zn[z] : 0;
        return c;
    }
    void engage(int z)
    {
        pool_engage(&h, zmem[z], zn[z] * esz, esz);
        engaged[z] = 1;
    }
    char *addr(size_t g)
    {
        size_t z = 0;
        while (z + 1 < zn.size() && g >= zbase[z + 1])
            z++;
        return zmem[z] + (g - zbase[z]) * esz;
    }
    // global cell index of a block; -1: not a cell of an engaged zone (outside / off the grid / zone not engaged)
    long locate(const char *q, string &why)
    {
        for (size_t z = 0; z < zn.size(); z++)
            if (q >= zmem[z] && q < zmem[z] + zn[z] * esz)
            {
                if (!engaged[z])
                {
                    why = mc::fmt("in zone %zu which was never engaged", z);
                    return -1;
                }
                if ((q - zmem[z]) % esz)
                {
                    why = mc::fmt("zone %zu + %ld: not on the %zu-byte grid", z, (long)(q - zmem[z]), esz);
                    return -1;
                }
                return (long)(zbase[z] + (q - zmem[z]) / esz);
            }
        why = "outside every zone";
        return -1;
    }
    // bounded walk: every entry a free cell of an engaged zone, none twice
    bool walk(vector<int> &order, string &why)
    {
        order.clear();
        vector<char> seen(total(), 0);
        struct slist_head *hd = &h.free_blocks;
        for (struct slist_head *it = hd->next; it != hd; it = it->next)
        {
            string w;
            long g = locate((char *)it, w);
            if (g < 0)
            {
                why = mc::fmt("free-list entry #%zu is not a cell of an engaged zone (%s)", order.size(), w.c_str());
                return false;
            }
            if (seen[g] || order.size() >= total())
            {
                why = "free list visits a cell twice (cycle)";
                return false;
            }
            seen[g] = 1;
            order.push_back((int)g);
        }
        return true;
    }
    // "" or "<kind>: what"
    string check(bool membership)
    {
        vector<int> ord;
        string why;
        if (!walk(ord, why))
            return "free_list_corrupt: " + why;
        for (int g : ord)
            if (live_tag[g] >= 0)
                return mc::fmt("live_cell_on_free_list: live cell %d is on the free list", g);
        size_t want = capacity() - nlive;
        if (ord.size() != want || pool_avail(&h) != want)
            return mc::fmt("count: the free list holds %zu cells, pool_avail()=%zu; engaged capacity %zu - live %zu = %zu", ord.size(), pool_avail(&h), capacity(),
                           nlive, want);
        for (size_t g = 0; g < total(); g++)
        {
            if (live_tag[g] < 0)
                continue;
            for (size_t j = 0; j < esz; j++)
                if ((unsigned char)addr(g)[j] != pat((unsigned)live_tag[g], (unsigned)j))
                    return mc::fmt("contents: live cell %zu changed at byte %zu", g, j);
        }
        if (membership)
        {
            vector<char> onlist(total(), 0);
            for (int g : ord)
                onlist[g] = 1;
            for (size_t g = 0; g < total(); g++)
                if ((pool_in_freelist(&h, addr(g)) != 0) != (onlist[g] != 0))
                    return mc::fmt("membership: pool_in_freelist(cell %zu)=%d", g, pool_in_freelist(&h, addr(g)));
        }
        return "";
    }
    // one allocation against the shadow; "" / "<kind>: what"; `got` = global cell or -1 for null
    string get(long &got)
    {
        bool full = nlive == capacity();
        char *q = (char *)pool_alloc(&h);
        got = -1;
        if (!q)
            return full ? "" : mc::fmt("null_before_capacity: pool_alloc() returned null with %zu of %zu cells live", nlive, capacity());
        string w;
        long g = locate(q, w);
        if (g < 0)
            return "outside_zone: pool_alloc() returned a block " + w;
        if (live_tag[g] >= 0)
            return mc::fmt("overlap: pool_alloc() returned cell %ld which is live (%zu of %zu live)", g, nlive, capacity());
        live_tag[g] = (int)(g + tag_bias);
        for (size_t j = 0; j < esz; j++)
            q[j] = (char)pat((unsigned)(g + tag_bias), (unsigned)j);
        nlive++;
        got = g;
        return "";
    }
    void put(size_t g)
    {
        live_tag[g] = -1;
        nlive--;
        pool_free(&h, addr(g));
    }
};

static vector<size_t> zone_cells() { return mc::thorough() ? vector<size_t>{3, 1, 3} : vector<size_t>{2, 1, 3}; }
static const size_t ES_Z[] = {8, 12, 24};

struct ZonesModel : PairAble
{
    static const int MAXTOT = 7, NZ = 3;
    std::unique_ptr<MultiZone> m;
    int conf = -1;
    vector<size_t> cells;
    explicit ZonesModel(vector<size_t> c = zone_cells()) : cells(std::move(c)) {}
    string base() { return "C10.c_pool_zones" + sfx + "."; }
    bool is_init(int o) override { return o < 3; }
    bool pair_conf(int o) override { return o == 0 || o == 1; }
    bool configured() override { return conf >= 0; }
    string recheck() override { return conf < 0 ? "" : m->check(true); }
    void live_ranges(vector<Range> &out) override
    {
        if (conf < 0)
            return;
        for (size_t g = 0; g < m->total(); g++)
            if (m->live_tag[g] >= 0)
                out.push_back({m->addr(g), m->addr(g) + m->esz});
    }
    // op table: init[esz] x3 | pool_alloc | pool_free(cell 0..MAXTOT-1) | pool_engage(zone 0..2)
    int nops() override { return 3 + 1 + MAXTOT + NZ; }
    string opname(int o) override
    {
        if (o < 3)
            return mc::fmt("pool_init[elem %zu, no zone yet]", ES_Z[o]);
        o -= 3;
        if (o == 0)
            return "pool_alloc()";
        o -= 1;
        if (o < MAXTOT)
            return mc::fmt("pool_free(cell %d)", o);
        o -= MAXTOT;
        return mc::fmt("pool_engage(zone %d: %zu cells) without pool_init", o, o < (int)cells.size() ? cells[o] : (size_t)0);
    }
    string state_str()
    {
        vector<int> ord;
        string why;
        bool ok = m->walk(ord, why);
        string s = "engaged [";
        for (size_t z = 0; z < m->zn.size(); z++)
            if (m->engaged[z])
                s += mc::fmt("%zu ", z);
        s += "] free list [" + ints(ord) + (ok ? "] live [" : "...CORRUPT] live [");
        for (size_t g = 0; g < m->total(); g++)
            if (m->live_tag[g] >= 0)
                s += mc::fmt("%zu ", g);
        return s + "]";
    }
    bool finish(const char *cls, int o, string w)
    {
        if (w.empty())
            w = m->check(true);
        if (!w.empty())
        {
            mc::violation(base() + cls + "." + w.substr(0, w.find(':')), "after %s: %s; %s", opname(o).c_str(), w.c_str(), state_str().c_str());
            return true;
        }
        vector<int> ord;
        string why;
        m->walk(ord, why);
        for (size_t i = 1; i < ord.size(); i++)
            if (ord[i] > ord[i - 1])
            {
                mc::nontrivial(); // an order no single engage + allocation-only history leaves behind
                break;
            }
        return true;
    }
    bool apply(int o) override
    {
        int o0 = o;
        if (o < 3)
        {
            if (conf >= 0)
                return false;
            conf = o;
            mc::crash_context("C10.c_pool_zones.init");
            m.reset(new MultiZone(ES_Z[o], cells));
            m->tag_bias = 64 * inst;
            return finish("init", o0, "");
        }
        if (conf < 0)
            return false;
        o -= 3;
        if (o == 0)
        {
            bool full = m->nlive == m->capacity();
            const char *cls = full ? "get_exhausted" : "get";
            mc::crash_context("C10.c_pool_zones.%s", cls);
            long g;
            string w = m->get(g);
            if (full)
                mc::nontrivial(); // capacity + 1st request (also: no zone engaged yet)
            mc::outcome(g < 0 ? "null" : mc::fmt("cell %ld", g));
            return finish(cls, o0, w);
        }
        o -= 1;
        if (o < MAXTOT)
        {
            if (o >= (int)m->total() || m->live_tag[o] < 0)
                return false;
            mc::crash_context("C10.c_pool_zones.put");
            m->put(o);
            return finish("put", o0, "");
        }
        o -= MAXTOT;
        if (o >= (int)cells.size() || m->engaged[o])
            return false; // a zone is engaged once
        bool had_free = m->capacity() > m->nlive;
        const char *cls = had_free ? "engage_with_free_blocks" : m->capacity() ? "engage_when_drained" : "engage_first";
        mc::crash_context("C10.c_pool_zones.%s", cls);
        if (m->capacity())
            mc::nontrivial(); // a further zone on a head that is in use
        m->engage(o);
        return finish(cls, o0, "");
    }
    string key() override
    {
        if (conf < 0)
            return "unconfigured";
        vector<int> ord;
        string why;
        bool ok = m->walk(ord, why);
        string k = mc::fmt("%d|", conf);
        for (char e : m->engaged)
            k += e ? 'E' : '-';
        k += "|" + ints(ord) + (ok ? "|" : "!|");
        for (int t : m->live_tag)
            k += t >= 0 ? 'L' : 'f';
        return k;
    }
};

// large: zones {255,2} and {1,256}; the second zone is engaged up front / when the first is drained / when the first
// is drained and one block was freed again
static void zones_large_case()
{
    static const size_t ZP[][2] = {{255, 2}, {1, 256}};
    static const char *TIM[] = {"both zones up front", "second zone when the first is drained", "second zone when the first is drained and one block is free again"};
    int c = mc::choose(2 * 3 * 3 * 3);
    int ord = c % 3, tim = c / 3 % 3;
    size_t esz = ES_L[c / 9 % 3];
    const size_t *zp = ZP[c / 27];
    mc::describe("pool_head fed from zones of %zu + %zu cells of %zu bytes, %s, free order %s", zp[0], zp[1], esz, TIM[tim], ORD[ord]);
    MultiZone m(esz, {zp[0], zp[1]});
    bool failed = false;
    auto fail = [&](const char *phase, const string &w) {
        mc::violation(string("C10.c_pool_zones.large.") + phase + "." + w.substr(0, w.find(':')), "%s (engaged capacity %zu, %zu live)", w.c_str(), m.capacity(), m.nlive);
        failed = true;
    };
    auto observe = [&](const char *phase) {
        if (failed)
            return;
        string w = m.check(true);
        if (!w.empty())
            fail(phase, w);
    };
    vector<long> order;
    auto fill = [&](const char *phase) {
        mc::crash_context("C10.c_pool_zones.large.%s", phase);
        while (!failed && m.nlive < m.capacity())
        {
            long g;
            string w = m.get(g);
            if (!w.empty())
                return fail(phase, w);
            order.push_back(g);
            if (boundary(m.nlive, m.capacity()))
                observe(phase);
        }
        if (failed)
            return;
        long g;
        string w = m.get(g); // capacity + 1
        if (!w.empty())
            return fail("exhausted", w);
        observe("exhausted");
    };
    mc::crash_context("C10.c_pool_zones.large.engage");
    observe("init"); // no zone: capacity 0
    {
        long g;
        string w = m.get(g);
        if (!w.empty())
            fail("exhausted", w);
    }
    m.engage(0);
    observe("engage");
    if (tim == 0)
    {
        m.engage(1);
        observe("engage_with_free_blocks");
    }
    else
    {
        fill("fill_first_zone");
        if (tim == 2 && !failed)
        {
            m.put((size_t)order[0]);
            order.erase(order.begin());
            observe("put");
        }
        mc::crash_context("C10.c_pool_zones.large.engage");
        if (!failed)
        {
            m.engage(1);
            observe(tim == 2 ? "engage_with_free_blocks" : "engage_when_drained");
        }
    }
    if (!failed)
        fill("fill");
    if (!failed)
    {
        string ph = string("free_") + ORD[ord];
        mc::crash_context("C10.c_pool_zones.large.%s", ph.c_str());
        vector<long> seq;
        if (ord == 0)
            seq.assign(order.rbegin(), order.rend());
        else if (ord == 1)
            seq = order;
        else
            for (size_t s0 = 0; s0 < 7; s0++)
                for (size_t i = s0; i < order.size(); i += 7)
                    seq.push_back(order[i]);
        for (long g : seq)
        {
            if (failed)
                break;
            m.put((size_t)g);
            if (boundary(m.nlive, m.capacity()))
                observe(ph.c_str());
        }
        order.clear();
    }
    if (!failed)
        fill("refill");
    mc::nontrivial(); // every case engages a further zone on a used head and crosses the 2^8 cell count
    mc::outcome(mc::fmt("%zu+%zu %s %s", zp[0], zp[1], TIM[tim], failed ? "violation" : "ok"));
}

// ---------------------------------------------------------------- re-entrant element constructors / destructors
// An element whose constructor takes further objects from the SAME pool (a tree node creating its children) and whose
// destructor gives them back: user code that runs inside create()/destroy() and calls the pool again.
struct Node;
struct NodePool
{
    virtual ~NodePool() {}
    virtual Node *create(int kids) = 0;
    virtual void destroy(Node *) = 0;
    virtual size_t avail() = 0;
    virtual struct pool_head *freelist() = 0;
    virtual char *zone() = 0;
    size_t cap = 0, esz = 0;
};
struct NodeReg
{
    std::map<const Node *, int> alive; // node -> number of children it asked for
    vector<string> errs;
    long ctors = 0, dtors = 0;
    NodePool *pool = nullptr;
};
static NodeReg *g_nreg = nullptr;
static const uint64_t NODE_MAGIC = 0x9E3779B97F4A7C15ull;

struct Node
{
    uint64_t magic; // self-check word: first pointer-sized word of the cell
    Node *kid[2];
    int want, nk;
    explicit Node(int kids) : want(kids), nk(0)
    {
        g_nreg->ctors++;
        if (g_nreg->alive.count(this))
            g_nreg->errs.push_back("overlap: an object was constructed on top of a live object (nested create() returned a cell that is in use)");
        g_nreg->alive[this] = kids;
        magic = NODE_MAGIC ^ (uint64_t)(uintptr_t)this;
        kid[0] = kid[1] = nullptr;
        for (int i = 0; i < kids; i++)
        {
            Node *k = g_nreg->pool->create(0); // re-enters the pool while this object is under construction
            if (k)
                kid[nk++] = k;
        }
    }
    ~Node()
    {
        g_nreg->dtors++;
        if (!g_nreg->alive.count(this))
            g_nreg->errs.push_back("lifetime: destructor ran on an object that is not alive");
        else if (magic != (NODE_MAGIC ^ (uint64_t)(uintptr_t)this))
            g_nreg->errs.push_back("object_overwritten_before_destruction: the destructor found the object's first word changed");
        g_nreg->alive.erase(this);
        for (int i = 0; i < nk; i++)
            g_nreg->pool->destroy(kid[i]); // re-enters the pool from inside destroy()
        magic = 0;
        kid[0] = kid[1] = nullptr;
    }
    Node(const Node &) = delete;
};
template <size_t N> struct NodePoolImpl : NodePool
{
    typedef igris::static_object_pool<Node, N> P;
    P *p;
    NodePoolImpl()
    {
        p = new P;
        cap = N;
        esz = sizeof(typename P::storage_type);
    }
    ~NodePoolImpl() { delete p; }
    Node *create(int kids) override { return p->create(kids); }
    void destroy(Node *n) override { p->destroy(n); }
    size_t avail() override { return p->avail(); }
    struct pool_head *freelist() override { return p->freelist(); }
    char *zone() override { return (char *)p->storage.data(); }
};

struct NestedModel : PairAble
{
    static const int MAXN = 5;
    bool is_init(int o) override { return o <= MAXN; }
    bool pair_conf(int o) override { return o <= 2; }
    bool configured() override { return conf >= 0; }
    void live_ranges(vector<Range> &out) override
    {
        if (conf < 0)
            return;
        for (size_t c = 0; c < role.size(); c++)
            if (role[c] != -1)
                out.push_back({np->zone() + c * np->esz, np->zone() + c * np->esz + sizeof(Node)});
    }
    string recheck() override
    {
        if (conf < 0)
            return "";
        g_nreg = &reg;
        vector<int> ord;
        return observe_all(ord);
    }
    std::unique_ptr<NodePool> np;
    NodeReg reg;
    int conf = -1;
    vector<int> role; // per cell: -1 free, -2 child, k>=0: root that asked for k children
    vector<vector<int>> kids; // per root cell: cells of its children
    int ncaps() { return (mc::thorough() ? 5 : 4) + 1; } // capacities 0..4 (5)
    // op table: init[capacity 0..MAXN] | create(0..2 children) | destroy(root in cell 0..MAXN-1)
    int nops() override { return (MAXN + 1) + 3 + MAXN; }
    string opname(int o) override
    {
        if (o <= MAXN)
            return mc::fmt("init[static_object_pool<Node,%d>]", o);
        o -= MAXN + 1;
        if (o < 3)
            return mc::fmt("create(node whose constructor creates %d children from the same pool)", o);
        return mc::fmt("destroy(root in cell %d; its destructor destroys its children)", o - 3);
    }
    int nlive()
    {
        int n = 0;
        for (int r : role)
            n += r != -1;
        return n;
    }
    int cell_of(const void *q)
    {
        char *z = np->zone();
        const char *c = (const char *)q;
        if (!z || c < z || c >= z + np->cap * np->esz || (c - z) % np->esz)
            return -1;
        return (int)((c - z) / np->esz);
    }
    bool walk(vector<int> &ord, string &why)
    {
        ord.clear();
        struct slist_head *hd = &np->freelist()->free_blocks;
        for (struct slist_head *it = hd->next; it != hd; it = it->next)
        {
            int c = cell_of(it);
            if (c < 0)
            {
                why = mc::fmt("free-list entry #%zu is not a cell of the pool", ord.size());
                return false;
            }
            if (ord.size() >= np->cap)
            {
                why = "free list is longer than the capacity (cycle)";
                return false;
            }
            ord.push_back(c);
        }
        return true;
    }
    string state_str()
    {
        vector<int> ord;
        string why;
        bool ok = walk(ord, why);
        string s = "free list [" + ints(ord) + (ok ? "] cells [" : "...CORRUPT] cells [");
        for (int r : role)
            s += r == -1 ? "free " : r == -2 ? "child " : mc::fmt("root(%d) ", r);
        return s + "]";
    }
    bool bad(const char *cls, int o, const string &w)
    {
        mc::violation("C10.static_object_pool_nested" + sfx + "." + cls + "." + w.substr(0, w.find(':')), "after %s: %s; %s", opname(o).c_str(), w.c_str(), state_str().c_str());
        return true;
    }
    string observe_all(vector<int> &ord)
    {
        if (!reg.errs.empty())
            return reg.errs[0];
        string why;
        if (!walk(ord, why))
            return "free_list_corrupt: " + why;
        for (int c : ord)
            if (role[c] != -1)
                return mc::fmt("live_cell_on_free_list: live cell %d is on the free list", c);
        size_t want = np->cap - nlive();
        if (np->avail() != want || ord.size() != want)
            return mc::fmt("count: avail()=%zu, free list holds %zu cells; capacity %zu - live %d = %zu", np->avail(), ord.size(), np->cap, nlive(), want);
        if (reg.alive.size() != (size_t)nlive())
            return mc::fmt("lifetime: %zu objects alive, %d cells live", reg.alive.size(), nlive());
        // contents of every live object: self-check word, and the children a root holds are the model's
        for (size_t c = 0; c < role.size(); c++)
        {
            if (role[c] == -1)
                continue;
            Node *n = (Node *)(np->zone() + c * np->esz);
            if (n->magic != (NODE_MAGIC ^ (uint64_t)(uintptr_t)n) || !reg.alive.count(n))
                return mc::fmt("contents: live object in cell %zu changed", c);
            if (role[c] >= 0)
            {
                if (n->nk != (int)kids[c].size())
                    return mc::fmt("contents: root in cell %zu holds %d children, the model %zu", c, n->nk, kids[c].size());
                for (int i = 0; i < n->nk; i++)
                    if (cell_of(n->kid[i]) != kids[c][i])
                        return mc::fmt("contents: child %d of the root in cell %zu changed", i, c);
            }
        }
        return "";
    }
    bool finish(const char *cls, int o)
    {
        vector<int> ord;
        string w = observe_all(ord);
        if (!w.empty())
            return bad(cls, o, w);
        for (size_t i = 1; i < ord.size(); i++)
            if (ord[i] > ord[i - 1])
            {
                mc::nontrivial();
                break;
            }
        return true;
    }
    template <size_t N> NodePool *mk() { return new NodePoolImpl<N>; }
    bool apply(int o) override
    {
        g_nreg = &reg;
        int o0 = o;
        if (o <= MAXN)
        {
            if (conf >= 0 || o >= ncaps())
                return false;
            conf = o;
            mc::crash_context("C10.static_object_pool_nested.init");
            np.reset(o == 0 ? mk<0>() : o == 1 ? mk<1>() : o == 2 ? mk<2>() : o == 3 ? mk<3>() : o == 4 ? mk<4>() : mk<5>());
            reg.pool = np.get();
            role.assign(np->cap, -1);
            kids.assign(np->cap, {});
            return finish("init", o0);
        }
        if (conf < 0)
            return false;
        o -= MAXN + 1;
        if (o < 3)
        {
            int k = o;
            int freec = (int)np->cap - nlive();
            const char *cls = freec == 0 ? "create_exhausted" : k == 0 ? "create" : freec - 1 < k ? "create_nested_exhausting" : "create_nested";
            mc::crash_context("C10.static_object_pool_nested.%s", cls);
            if (k > 0 || freec == 0)
                mc::nontrivial(); // the constructor re-enters the pool / the pool is exhausted (possibly by the constructor itself)
            long c0 = reg.ctors;
            Node *r = np->create(k);
            if (!reg.errs.empty())
                return bad(cls, o0, reg.errs[0]);
            if (freec == 0)
            {
                if (r)
                    return bad(cls, o0, "overlap: create() on an exhausted pool returned a block instead of null");
                if (reg.ctors != c0)
                    return bad(cls, o0, "lifetime: create() returned null but ran a constructor");
                mc::outcome("null");
                return finish(cls, o0);
            }
            if (!r)
                return bad(cls, o0, mc::fmt("null_before_capacity: create() returned null with %d of %zu cells live", nlive(), np->cap));
            int want_k = std::min(k, freec - 1);
            vector<const void *> got{r};
            for (int i = 0; i < r->nk && i < 2; i++)
                got.push_back(r->kid[i]);
            if (r->nk != want_k)
                return bad(cls, o0, mc::fmt("null_before_capacity: the constructor obtained %d children, %d cells were free for them (it asked for %d)", r->nk, freec - 1, k));
            if (reg.ctors != c0 + 1 + want_k)
                return bad(cls, o0, mc::fmt("lifetime: create() ran %ld constructors, expected %d", reg.ctors - c0, 1 + want_k));
            vector<int> cells;
            for (const void *q : got)
            {
                int c = cell_of(q);
                if (c < 0 || (uintptr_t)q % alignof(Node))
                    return bad(cls, o0, "outside_zone: a block returned during create() is not an aligned cell of the pool");
                if (role[c] != -1 || std::find(cells.begin(), cells.end(), c) != cells.end())
                    return bad(cls, o0, mc::fmt("overlap: cell %d was handed out while it is live (nested create() during construction)", c));
                cells.push_back(c);
            }
            role[cells[0]] = k;
            kids[cells[0]].assign(cells.begin() + 1, cells.end());
            for (size_t i = 1; i < cells.size(); i++)
                role[cells[i]] = -2;
            mc::outcome(mc::fmt("root %d kids %d", cells[0], r->nk));
            return finish(cls, o0);
        }
        o -= 3;
        if (o >= (int)np->cap || role[o] < 0)
            return false;
        const char *cls = kids[o].empty() ? "destroy" : "destroy_nested";
        mc::crash_context("C10.static_object_pool_nested.%s", cls);
        if (!kids[o].empty())
            mc::nontrivial(); // the destructor re-enters destroy()
        long d0 = reg.dtors;
        long expect = 1 + (long)kids[o].size();
        Node *n = (Node *)(np->zone() + o * np->esz);
        for (int c : kids[o])
            role[c] = -1;
        kids[o].clear();
        role[o] = -1;
        np->destroy(n);
        if (reg.errs.empty() && reg.dtors != d0 + expect)
            return bad(cls, o0, mc::fmt("lifetime: destroy() ran %ld destructors, expected %ld", reg.dtors - d0, expect));
        return finish(cls, o0);
    }
    string key() override
    {
        if (conf < 0)
            return "unconfigured";
        vector<int> ord;
        string why;
        bool ok = walk(ord, why);
        string k = mc::fmt("%d|", conf) + ints(ord) + (ok ? "|" : "!|");
        for (size_t c = 0; c < role.size(); c++)
        {
            k += mc::fmt("%d", role[c]);
            for (int x : kids[c])
                k += mc::fmt(">%d", x);
            k += ',';
        }
        return k;
    }
    ~NestedModel()
    {
        np.reset();
        if (g_nreg == &reg)
            g_nreg = nullptr;
    }
};

// ---------------------------------------------------------------- two pools of the same type alive at once
// Interleaved histories on two pool objects of the same class / template instance with the same configuration: state
// shared between instances (a static data member, a function-local static) shows as one pool disturbing the other.
// After every operation on one pool the OTHER pool is observed completely again, and no live block of one pool may
// overlap a live block of the other.
struct PairModel : mc::Model
{
    std::unique_ptr<PairAble> a[2];
    string flav;
    PairModel(const string &fl, PairAble *x, PairAble *y) : flav(fl)
    {
        a[0].reset(x);
        a[1].reset(y);
        for (unsigned i = 0; i < 2; i++)
        {
            a[i]->sfx = "_pair";
            a[i]->inst = i;
        }
    }
    // op table: [ops of pool A (its configuration ops configure BOTH pools alike)] [ops of pool B (configuration ops unused)]
    int n1() { return a[0]->nops(); }
    int nops() override { return 2 * n1(); }
    string opname(int o) override
    {
        int w = o / n1(), so = o % n1();
        if (a[0]->is_init(so))
            return "both pools: " + a[0]->opname(so);
        return mc::fmt("pool %c: ", 'A' + w) + a[w]->opname(so);
    }
    bool apply(int o) override
    {
        int w = o / n1(), so = o % n1();
        if (a[0]->is_init(so))
        {
            if (w != 0 || a[0]->configured() || !a[0]->pair_conf(so))
                return false;
            if (!a[0]->apply(so))
                mc::harness_error("C10 pair: configuration op disabled on a fresh model");
            if (mc::case_has_violation())
                return true;
            a[1]->apply(so); // the second pool of the same type, constructed while the first is alive
            if (mc::case_has_violation())
                return true;
            w = 1;
        }
        else
        {
            if (!a[0]->configured() || !a[w]->apply(so))
                return false;
            if (mc::case_has_violation())
                return true;
        }
        // the pool that was not touched must be exactly as it was
        string r = a[1 - w]->recheck();
        if (!r.empty())
        {
            mc::violation("C10." + flav + "_pair.other_pool." + r.substr(0, r.find(':')), "after %s the OTHER pool (%c) no longer matches its shadow: %s", opname(o).c_str(),
                          'A' + (1 - w), r.c_str());
            return true;
        }
        r = a[w]->recheck();
        if (!r.empty())
        {
            mc::violation("C10." + flav + "_pair.this_pool." + r.substr(0, r.find(':')), "after %s pool %c no longer matches its shadow once the other pool was observed: %s",
                          opname(o).c_str(), 'A' + w, r.c_str());
            return true;
        }
        vector<Range> ra, rb;
        a[0]->live_ranges(ra);
        a[1]->live_ranges(rb);
        for (auto &x : ra)
            for (auto &y : rb)
                if (x.first < y.second && y.first < x.second)
                {
                    mc::violation("C10." + flav + "_pair.overlap_other_pool", "after %s a live block of pool A and a live block of pool B share memory (%ld bytes)", opname(o).c_str(),
                                  (long)(std::min(x.second, y.second) - std::max(x.first, y.first)));
                    return true;
                }
        if (!ra.empty() && !rb.empty())
            mc::nontrivial(); // both pools have blocks out
        return true;
    }
    string key() override { return a[0]->key() + " # " + a[1]->key(); }
};

MC_INIT
{
    static const size_t ES[] = {8, 16, 24};
    // cells that are not a multiple of alignof(slist_head): the grid is still elemsz (the zone is exactly
    // capacity*elemsz bytes), the links in free cells are then unaligned (fine on this host)
    static const size_t ES2[] = {12, 20};
    static auto mk_c = []() -> PoolModel * {
        vector<Conf> c;
        for (size_t e : ES)
            for (int n = 1; n <= maxcap(); n++)
                c.push_back(Conf{mc::fmt("elem %zu x %d", e, n), e, [e, n] { return (Flavour *)new CFlavour(e, n); }, (size_t)n});
        int np = (int)c.size();
        for (size_t e : ES2)
            for (int n = 1; n <= maxcap(); n++)
                c.push_back(Conf{mc::fmt("elem %zu x %d", e, n), e, [e, n] { return (Flavour *)new CFlavour(e, n); }, (size_t)n});
        // capacity 0: the pool must construct and answer null at once
        for (size_t e : {(size_t)8, (size_t)12, (size_t)16, (size_t)20, (size_t)24})
            c.push_back(Conf{mc::fmt("elem %zu x 0", e), e, [e] { return (Flavour *)new CFlavour(e, 0); }, 0});
        // zones that do not start on a pointer boundary (carved out of a char array): same oracles, the grid starts at the zone
        for (size_t off : {(size_t)1, (size_t)4})
            for (size_t e : {(size_t)8, (size_t)12})
                for (int n = 1; n <= 3; n++)
                    c.push_back(Conf{mc::fmt("elem %zu x %d, zone at +%zu", e, n, off), e, [e, n, off] { return (Flavour *)new CFlavour(e, n, off); }, (size_t)n});
        PoolModel *m = new PoolModel("c_pool", c, false, true);
        m->nprimary = np;
        return m;
    };
    static auto mk_x = []() -> PoolModel * {
        vector<Conf> c;
        for (size_t e : ES)
            for (int n = 1; n <= maxcap(); n++)
                c.push_back(Conf{mc::fmt("elem %zu x %d", e, n), e, [e, n] { return (Flavour *)new XFlavour(e, n); }, (size_t)n});
        int np = (int)c.size();
        for (size_t e : ES2)
            for (int n = 1; n <= maxcap(); n++)
                c.push_back(Conf{mc::fmt("elem %zu x %d", e, n), e, [e, n] { return (Flavour *)new XFlavour(e, n); }, (size_t)n});
        // capacity 0: the pool must construct and answer null at once
        for (size_t e : {(size_t)8, (size_t)12, (size_t)16, (size_t)20, (size_t)24})
            c.push_back(Conf{mc::fmt("elem %zu x 0", e), e, [e] { return (Flavour *)new XFlavour(e, 0); }, 0});
        // zones that do not start on a pointer boundary (carved out of a char array): same oracles, the grid starts at the zone
        for (size_t off : {(size_t)1, (size_t)4})
            for (size_t e : {(size_t)8, (size_t)12})
                for (int n = 1; n <= 3; n++)
                    c.push_back(Conf{mc::fmt("elem %zu x %d, zone at +%zu", e, n, off), e, [e, n, off] { return (Flavour *)new XFlavour(e, n, off); }, (size_t)n});
        PoolModel *m = new PoolModel("cxx_pool", c, true, true);
        m->nprimary = np;
        return m;
    };
    static auto mk_s = []() -> PoolModel * {
        vector<Conf> c;
        int mx = maxcap();
        sconfs<Tracked<4, 4>>(c, "T(size 4, align 4)", mx); // smaller than a free-list link: the cell is larger than T
        sconfs<Tracked<8, 8>>(c, "T(size 8, align 8)", mx);
        sconfs<Tracked<16, 8>>(c, "T(size 16, align 8)", mx);
        sconfs<Tracked<24, 8>>(c, "T(size 24, align 8)", mx);
        sconfs<Tracked<32, 16>>(c, "T(size 32, align 16)", mx); // over-aligned
        int np = (int)c.size();
        // capacity 0 (std::array<cell,0>: no storage at all): must construct, and create() must answer null at once
        c.push_back(sconf<Tracked<4, 4>, 0>("T(size 4, align 4)"));
        c.push_back(sconf<Tracked<8, 8>, 0>("T(size 8, align 8)"));
        c.push_back(sconf<Tracked<16, 8>, 0>("T(size 16, align 8)"));
        c.push_back(sconf<Tracked<24, 8>, 0>("T(size 24, align 8)"));
        c.push_back(sconf<Tracked<32, 16>, 0>("T(size 32, align 16)"));
        PoolModel *m = new PoolModel("static_object_pool", c, false, false); /* no reset in its API */
        m->nprimary = np;
        return m;
    };
    mc::add_bfs("c_pool", [] { return std::unique_ptr<mc::Model>(mk_c()); });
    mc::add_bfs("cxx_pool", [] { return std::unique_ptr<mc::Model>(mk_x()); });
    mc::add_bfs("static_object_pool", [] { return std::unique_ptr<mc::Model>(mk_s()); });
    // ---- large capacities (tree shape; see struct Large)
    mc::add_check("pools_large", [] {
        size_t ncap = mc::thorough() ? sizeof CAPS_T / sizeof *CAPS_T : sizeof CAPS_Q / sizeof *CAPS_Q;
        int c = mc::choose((int)(2 * ncap * 3 * 3));
        int ord = c % 3;
        size_t esz = ES_L[c / 3 % 3];
        size_t cap = (mc::thorough() ? CAPS_T : CAPS_Q)[c / 9 % ncap];
        int fl = (int)(c / 9 / ncap);
        mc::describe("%s: %zu cells of %zu bytes, free order %s", fl ? "igris::pool" : "pool_head", cap, esz, ORD[ord]);
        Large L;
        L.flav = fl ? "cxx_pool" : "c_pool";
        std::unique_ptr<Flavour> f(fl ? (Flavour *)new XFlavour(esz, cap) : (Flavour *)new CFlavour(esz, cap));
        L.f = f.get();
        L.cap = cap;
        L.data = esz;
        L.run(ord);
    });
    mc::add_check("static_object_pool_large", [] {
        int c = mc::choose(4 * 2 * 3);
        int ord = c % 3, ty = c / 3 % 2, n = c / 6;
        typedef Tracked<8, 8> T8;
        typedef Tracked<24, 8> T24;
#define C10_LS(N)                                                                                                      \
    if (ty == 0)                                                                                                       \
        large_static<T8, N>(ord, "T(size 8)");                                                                         \
    else                                                                                                               \
        large_static<T24, N>(ord, "T(size 24)");
        switch (n)
        {
        case 0:
            C10_LS(255) break;
        case 1:
            C10_LS(256) break;
        case 2:
            C10_LS(257) break;
        default:
            C10_LS(300) break;
        }
#undef C10_LS
    });
    // ---- C pool fed from several zones (pool_engage again without pool_init)
    mc::add_bfs("c_pool_zones", [] { return std::unique_ptr<mc::Model>(new ZonesModel); });
    mc::add_check("c_pool_zones_large", zones_large_case);
    // ---- elements whose constructor / destructor call the pool again
    mc::add_bfs("static_object_pool_nested", [] { return std::unique_ptr<mc::Model>(new NestedModel); });
    // ---- two pools of the same type alive at once (see PairModel); small configurations, interleaved histories
    mc::add_bfs("c_pool_pair", [] { return std::unique_ptr<mc::Model>(new PairModel("c_pool", mk_c(), mk_c())); });
    mc::add_bfs("cxx_pool_pair", [] { return std::unique_ptr<mc::Model>(new PairModel("cxx_pool", mk_x(), mk_x())); });
    mc::add_bfs("static_object_pool_pair", [] { return std::unique_ptr<mc::Model>(new PairModel("static_object_pool", mk_s(), mk_s())); });
    mc::add_bfs("c_pool_zones_pair", [] {
        return std::unique_ptr<mc::Model>(new PairModel("c_pool_zones", new ZonesModel(vector<size_t>{1, 1}), new ZonesModel(vector<size_t>{1, 1})));
    });
    mc::add_bfs("static_object_pool_nested_pair",
                [] { return std::unique_ptr<mc::Model>(new PairModel("static_object_pool_nested", new NestedModel, new NestedModel)); });
    // ---- capacities around 2^15 and 2^16 for every flavour (element size 8): a counter or a walk limit of 15/16 bits
    mc::add_check("pools_huge", [] {
        static const size_t CH[] = {32767, 32768, 32769, 65535, 65536, 65537};
        int c = mc::choose(2 * 6 * 3);
        int ord = c % 3, fl = c / 18;
        size_t cap = CH[c / 3 % 6];
        mc::describe("%s: %zu cells of 8 bytes, free order %s", fl ? "igris::pool" : "pool_head", cap, ORD[ord]);
        Large L;
        L.flav = fl ? "cxx_pool" : "c_pool";
        std::unique_ptr<Flavour> f(fl ? (Flavour *)new XFlavour(8, cap) : (Flavour *)new CFlavour(8, cap));
        L.f = f.get();
        L.cap = cap;
        L.data = 8;
        L.run(ord);
    });
    mc::add_check("static_object_pool_huge", [] {
        int c = mc::choose(6 * 3);
        int ord = c % 3;
        typedef Tracked<8, 8> T8;
        switch (c / 3)
        {
        case 0:
            large_static<T8, 32767>(ord, "T(size 8)");
            break;
        case 1:
            large_static<T8, 32768>(ord, "T(size 8)");
            break;
        case 2:
            large_static<T8, 32769>(ord, "T(size 8)");
            break;
        case 3:
            large_static<T8, 65535>(ord, "T(size 8)");
            break;
        case 4:
            large_static<T8, 65536>(ord, "T(size 8)");
            break;
        default:
            large_static<T8, 65537>(ord, "T(size 8)");
            break;
        }
    });
    // ---- one long history per flavour and capacity (see long_history)
    mc::add_check("pools_long_history", [] {
        int c = mc::choose(3 * 3);
        int fl = c / 3, k = c % 3;
        static const size_t CL[] = {4, 300, 70000};
        typedef Tracked<8, 8> T8;
        if (fl == 2)
        {
            if (k == 0)
                long_static<T8, 4>("T(size 8)");
            else if (k == 1)
                long_static<T8, 300>("T(size 8)");
            else
                long_static<T8, 70000>("T(size 8)");
            return;
        }
        Large L;
        L.flav = fl ? "cxx_pool" : "c_pool";
        std::unique_ptr<Flavour> f(fl ? (Flavour *)new XFlavour(k == 1 ? 12 : 8, CL[k]) : (Flavour *)new CFlavour(k == 1 ? 12 : 8, CL[k]));
        L.f = f.get();
        L.cap = CL[k];
        L.data = f->esz;
        long_history(L, fl ? "igris::pool" : "pool_head");
    });
}
MC_MAIN
