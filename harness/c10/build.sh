#!/bin/bash
# C10: three executables
#   pools        igris pools (C pool_head, igris::pool, static_object_pool) under ASan
#   pools_ndebug the same with -DNDEBUG (release-mode headers)
#   heap_assert  lin_malloc/lin_realloc compiled as they are (assertions on: an abort is a violation)
#   heap_ndebug  the same sources with -DNDEBUG (structural oracles only)
set -e
. $MC/par.sh
H=$VERIF/harness/c10
HC="-std=c++20 -O2 -g -I$REPO -I$MC"
par g++ -std=c++20 -O2 -c -I$MC $MC/mc.cpp -o $BUILD/mc.o
par g++ -c $HC -DC10_ASSERT_BUILD=1 $H/c10_heap.cpp -o $BUILD/heap_assert.o
par g++ -c $HC -DC10_ASSERT_BUILD=0 $H/c10_heap.cpp -o $BUILD/heap_ndebug.o
par g++ -c -std=c++20 -O1 -g -I$REPO $REPO/igris/sync/syslock_mutex.cpp -o $BUILD/syslock.o
# the allocator, unchanged sources, twice
for v in assert ndebug; do
  D=""; [ $v = ndebug ] && D="-DNDEBUG"
  par g++ -c -std=c++20 -O1 -g $D -I$REPO $REPO/compat/mem/lin_malloc.cpp -o $BUILD/m_$v.o
  par g++ -c -std=c++20 -O1 -g $D -I$REPO $REPO/compat/mem/lin_realloc.cpp -o $BUILD/r_$v.o
done
# pools (ASan; zones are exactly-sized heap blocks)
# Full build: names one private member (igris::pool::head, for the bounded free-list walk) -> -fno-access-control.
# If that does not compile (a private member was renamed: not a property violation), fall back to the public API only.
PC="-std=c++20 -O1 -g -fsanitize=address -fno-omit-frame-pointer -I$REPO -I$MC"
pools_obj() { # $1 = object name, $2.. = extra flags
  local o=$1; shift
  if [ -z "$C10_FORCE_PUBLIC_ONLY" ] && g++ -c $PC "$@" -fno-access-control $H/c10_pools.cpp -o $BUILD/$o.o 2> $BUILD/${o}_full.err; then return 0; fi
  g++ -c $PC "$@" -DC10_PUBLIC_ONLY $H/c10_pools.cpp -o $BUILD/$o.o || return 1
  echo "NOTE: private state names changed, free-list walk replaced by allocation probing" > $BUILD/notes.txt
  cat $BUILD/notes.txt
}
par pools_obj pools
# release-mode variant of the headers (assert() vanishes: an assert that masks a bad state or carries a side effect)
par pools_obj pools_ndebug -DNDEBUG
par gcc -c -O1 -I$REPO $REPO/igris/dprint/dprint_func_impl.c -o $BUILD/dprint.o
par gcc -c -O1 -I$REPO $REPO/igris/dprint/dprint_stub.c -o $BUILD/dstub.o
parwait
RN="--redefine-sym malloc=lin_malloc --redefine-sym free=lin_free --redefine-sym realloc=lin_realloc"
for v in assert ndebug; do
  objcopy $RN $BUILD/m_$v.o
  objcopy $RN $BUILD/r_$v.o
  # the renaming must have caught definitions and the calls realloc makes
  if nm $BUILD/m_$v.o $BUILD/r_$v.o | grep -E ' [TU] (malloc|free|realloc)$'; then echo "objcopy: libc names left in the allocator objects"; exit 1; fi
  nm $BUILD/m_$v.o | grep -q ' T lin_malloc$'
  nm $BUILD/m_$v.o | grep -q ' T lin_free$'
  nm $BUILD/r_$v.o | grep -q ' T lin_realloc$'
  par g++ $BUILD/heap_$v.o $BUILD/m_$v.o $BUILD/r_$v.o $BUILD/syslock.o $BUILD/mc.o $BUILD/dprint.o $BUILD/dstub.o -lpthread -o $BUILD/c10_heap_$v
done
par g++ -fsanitize=address $BUILD/pools.o $BUILD/mc.o $BUILD/dprint.o $BUILD/dstub.o -o $BUILD/c10_pools
par g++ -fsanitize=address $BUILD/pools_ndebug.o $BUILD/mc.o $BUILD/dprint.o $BUILD/dstub.o -o $BUILD/c10_pools_ndebug
parwait
{
  echo "pools $BUILD/c10_pools"
  echo "pools_ndebug $BUILD/c10_pools_ndebug --only cxx_pool,static_object_pool,pools_large,pools_huge,c_pool_pair"
  echo "heap_ndebug $BUILD/c10_heap_ndebug"
  echo "heap_assert $BUILD/c10_heap_assert"
} > $BUILD/runs.txt
