// C10 (heap part) — the bare-metal allocator compat/mem/lin_malloc.cpp + lin_realloc.cpp:
// explicit-state BFS over malloc/free/realloc histories on the REAL object code (symbols renamed
// to lin_malloc/lin_free/lin_realloc by objcopy), against a shadow map of live blocks.
//
// Built twice: against the allocator compiled with assertions (-DC10_ASSERT_BUILD=1: an abort is a
// violation) and against the allocator compiled with -DNDEBUG (-DC10_ASSERT_BUILD=0: structural oracles only).
#include "mc.hpp"
#include <algorithm>
#include <compat/mem/lin_malloc.h> // struct __freelist {sz, nx}
#include <cstring>
#include <string>
#include <unordered_set>
#include <vector>

using std::string;
using std::vector;

extern "C" void *lin_malloc(size_t);
extern "C" void lin_free(void *);
extern "C" void *lin_realloc(void *, size_t);
// allocator state named by the property (lin_malloc.cpp:60-67)
extern char *__brkval;
extern struct __freelist *__flp;
extern int __allocation_counter __attribute__((weak)); // debug bookkeeping; optional

// ---- what the allocator needs from its environment
static const size_t ARENA = 1 << 21; // the BFS universes stay below 4 KiB, the long histories need ~1.3 MiB
alignas(64) char _heap_start[ARENA]; // `extern char _heap_start;` in lin_malloc.cpp
extern "C" int critical_context_level(void) { return 0; }

static char *const A = _heap_start;
static size_t g_dirty = ARENA; // bytes of the arena that may differ from the poison value

// request sizes. The port rounds every request up to a multiple of __WORDSIZE (64 on this host):
// 0 -> below the minimum chunk, 1/64 -> one unit, 65/128 -> two units, 200 -> four units.
// Order matters for the search only: the sizes that use their whole chunk come first, so that the
// representative history of every allocator state carries the strongest content oracle.
static const size_t SZ[] = {64, 128, 200, 65, 1, 0};
static const int NSZ = 6;

// cheap "%ld<sep>" (keys are built ~10 times per transition because states are rebuilt by replay)
static inline void put(string &k, long v, char sep)
{
    char b[24];
    int n = 0;
    bool neg = v < 0;
    unsigned long u = neg ? 0ul - (unsigned long)v : (unsigned long)v;
    do
        b[n++] = (char)('0' + u % 10);
    while (u /= 10);
    if (neg)
        k += '-';
    while (n)
        k += b[--n];
    k += sep;
}

static inline unsigned char pat(uint32_t off, uint32_t j) { return (unsigned char)(0x35 + off * 13 + (off >> 8) * 7 + j * 11); }

struct Blk
{
    uint32_t off; // pointer - arena
    uint32_t req; // bytes the caller asked for (what it may touch)
};

struct FreeEnt
{
    long off;
    unsigned long sz;
};

struct Heap : mc::Model
{
    int K;            // bound on simultaneously live blocks
    vector<Blk> live; // sorted by offset
    static std::unordered_set<string> memo_ok; // states whose free-all oracle passed (per process)

    // The allocator's state is global (three variables + the arena) and the engine may hold several models
    // at once (e.g. a scratch one to print operation names): each model owns a saved copy and switches
    // itself in before it touches the allocator.
    static Heap *active;
    struct Saved
    {
        char *brk = nullptr;
        struct __freelist *flp = nullptr;
        int cnt = 0;
        vector<char> mem;
    } saved;
    void activate()
    {
        if (active == this)
            return;
        if (active)
            active->save();
        memset(A, 0xEE, std::min(g_dirty + 64, ARENA));
        g_dirty = saved.mem.size();
        __brkval = saved.brk;
        __flp = saved.flp;
        if (&__allocation_counter)
            __allocation_counter = saved.cnt;
        if (!saved.mem.empty())
            memcpy(A, saved.mem.data(), saved.mem.size());
        active = this;
    }
    void save()
    {
        saved.brk = __brkval;
        saved.flp = __flp;
        saved.cnt = &__allocation_counter ? __allocation_counter : 0;
        saved.mem.assign(A, A + (__brkval ? __brkval - A : 0));
    }
    explicit Heap(int k) : K(k) {}
    ~Heap()
    {
        if (active == this)
            active = nullptr;
    }

    // ---- operations: malloc(s) | realloc(NULL,s) | free(#i) | realloc(#i,s)   (#i = i-th live block by address)
    int nops() override { return 2 * NSZ + K + K * NSZ; }
    struct Op
    {
        int kind; // 0 malloc 1 realloc(NULL) 2 free 3 realloc
        int i;
        size_t s;
    };
    Op decode(int o)
    {
        if (o < NSZ)
            return {0, 0, SZ[o]};
        o -= NSZ;
        if (o < NSZ)
            return {1, 0, SZ[o]};
        o -= NSZ;
        if (o < K)
            return {2, o, 0};
        o -= K;
        return {3, o / NSZ, SZ[o % NSZ]};
    }
    string opname(int o) override
    {
        Op p = decode(o);
        switch (p.kind)
        {
        case 0:
            return mc::fmt("malloc(%zu)", p.s);
        case 1:
            return mc::fmt("realloc(NULL,%zu)", p.s);
        case 2:
            return mc::fmt("free(#%d)", p.i);
        default:
            return mc::fmt("realloc(#%d,%zu)", p.i, p.s);
        }
    }

    // ---- observation helpers
    long brk_off() { return __brkval ? (long)(__brkval - A) : -1; }
    size_t hdr_sz(const Blk &b) { return ((struct __freelist *)(A + b.off - sizeof(size_t)))->sz; }
    // bounded walk of the free list; false = the list leaves [start, break) / is misaligned / cyclic
    bool walk_free(vector<FreeEnt> &out)
    {
        out.clear();
        char *top = __brkval ? __brkval : A;
        for (struct __freelist *f = __flp; f; f = f->nx)
        {
            char *c = (char *)f;
            if (c < A || c + sizeof(struct __freelist) > top || ((uintptr_t)c % alignof(size_t)) || out.size() >= 64)
                return false;
            out.push_back({(long)(c - A), (unsigned long)f->sz});
        }
        return true;
    }
    void fill(const Blk &b)
    {
        for (uint32_t j = 0; j < b.req; j++)
            A[b.off + j] = (char)pat(b.off, j);
    }
    int first_damage(const Blk &b, uint32_t patoff, uint32_t n)
    {
        for (uint32_t j = 0; j < n; j++)
            if ((unsigned char)A[b.off + j] != pat(patoff, j))
                return (int)j;
        return -1;
    }
    string dump()
    {
        string s = mc::fmt("brk=%ld free=[", brk_off());
        vector<FreeEnt> fl;
        bool ok = walk_free(fl);
        for (auto &f : fl)
            s += mc::fmt("(%ld,%lu)", f.off, f.sz);
        s += ok ? "] live=[" : " CORRUPT] live=[";
        for (auto &b : live)
            s += mc::fmt("(%u,req %u,chunk %zu)", b.off, b.req, hdr_sz(b));
        return s + "]";
    }

    // every live block still holds its pattern
    bool check_contents(const char *rt, int o)
    {
        for (auto &b : live)
        {
            int d = first_damage(b, b.off, b.req);
            if (d >= 0)
            {
                mc::violation(string("C10.heap.") + rt + ".contents", "%s: live block at offset %u (requested %u) changed at byte %d: %02x, written %02x; %s",
                              opname(o).c_str(), b.off, b.req, d, (unsigned char)A[b.off + d], pat(b.off, d), dump().c_str());
                return false;
            }
        }
        return true;
    }
    // a freshly returned block [p, p+s): inside [heap start, break), aligned, disjoint from every other live block and its header
    bool check_placement(const char *rt0, char *p, size_t s, int skip)
    {
        const string rt(rt0); // (short: no allocation)
        if (p < A + sizeof(size_t) || !__brkval || p + s > __brkval || p > __brkval)
        {
            mc::violation("C10.heap." + rt + ".outside_arena", "returned block [%ld,%ld) is not inside [heap start+header, break=%ld)", (long)(p - A),
                          (long)(p - A + (long)s), brk_off());
            return false;
        }
        if ((uintptr_t)p % alignof(size_t))
        {
            mc::violation("C10.heap." + rt + ".misaligned", "returned pointer at offset %ld is not aligned to %zu", (long)(p - A), alignof(size_t));
            return false;
        }
        long lo = (p - A) - (long)sizeof(size_t), hi = (p - A) + (long)s;
        for (int i = 0; i < (int)live.size(); i++)
        {
            if (i == skip)
                continue;
            long blo = (long)live[i].off - (long)sizeof(size_t), bhi = (long)live[i].off + live[i].req;
            if (lo < bhi && blo < hi)
            {
                mc::violation("C10.heap." + rt + ".overlap", "returned block header+data [%ld,%ld) overlaps live block header+data [%ld,%ld); %s", lo, hi,
                              blo, bhi, dump().c_str());
                return false;
            }
        }
        return true;
    }
    void insert_live(Blk b)
    {
        live.insert(std::upper_bound(live.begin(), live.end(), b, [](const Blk &x, const Blk &y) { return x.off < y.off; }), b);
    }
    bool heap_is_initial()
    {
        return __flp == nullptr && (__brkval == nullptr || __brkval == A);
    }

    // ---- "from this state, freeing all live blocks in every order returns the break to its initial value, empty free list"
    struct Snap
    {
        char *brk;
        struct __freelist *flp;
        int cnt;
        size_t n;
        char mem[4096];
    };
    bool snap(Snap &s)
    {
        s.brk = __brkval;
        s.flp = __flp;
        s.cnt = &__allocation_counter ? __allocation_counter : 0;
        s.n = __brkval ? (size_t)(__brkval - A) : 0;
        if (s.n > sizeof s.mem)
            return false;
        memcpy(s.mem, A, s.n);
        return true;
    }
    void restore(const Snap &s)
    {
        __brkval = s.brk;
        __flp = s.flp;
        if (&__allocation_counter)
            __allocation_counter = s.cnt;
        memcpy(A, s.mem, s.n);
    }
    long orders = 0;
    static const int MAXLIVE = 8;
    static string trail_str(const uint32_t *trail, int n)
    {
        string t;
        for (int i = 0; i < n; i++)
            put(t, trail[i], i + 1 < n ? ',' : ' ');
        return t;
    }
    // rem[0..n): blocks still live; trail[0..depth): offsets freed so far
    bool free_all_rec(const Blk *rem, int n, uint32_t *trail, int depth)
    {
        if (n == 0)
        {
            orders++;
            if (!heap_is_initial())
            {
                vector<FreeEnt> fl;
                walk_free(fl);
                mc::violation("C10.heap.free_all.memory_lost", "after freeing every live block in the order of offsets [%s] the break is at %ld (initial 0) and the free list has %zu entr%s%s",
                              trail_str(trail, depth).c_str(), brk_off(), fl.size(), fl.size() == 1 ? "y" : "ies",
                              fl.empty() ? "" : mc::fmt(", first (%ld,%lu)", fl[0].off, fl[0].sz).c_str());
                return false;
            }
            return true;
        }
        Snap s;
        if (!snap(s))
        { // the snapshot buffer holds every break a correct allocator can reach with MAXLIVE blocks of the alphabet
            mc::violation("C10.heap.break_beyond_every_reachable_layout", "break at %ld: larger than any layout of the live blocks allows", brk_off());
            return false;
        }
        Blk rest[MAXLIVE];
        for (int i = 0; i < n; i++)
        {
            int m = 0;
            for (int j = 0; j < n; j++)
                if (j != i)
                    rest[m++] = rem[j];
            trail[depth] = rem[i].off;
            lin_free(A + rem[i].off);
            bool ok = true;
            for (int j = 0; j < m && ok; j++)
            {
                int d = first_damage(rest[j], rest[j].off, rest[j].req);
                if (d >= 0)
                {
                    mc::violation("C10.heap.free_all.contents", "freeing in the order of offsets [%s]: live block at offset %u changed at byte %d",
                                  trail_str(trail, depth + 1).c_str(), rest[j].off, d);
                    ok = false;
                }
            }
            ok = ok && free_all_rec(rest, m, trail, depth + 1);
            restore(s);
            if (!ok)
                return false;
        }
        return true;
    }
    string memo_key()
    {
        string k = key();
        for (auto &b : live)
            put(k, b.req, 'r');
        return k;
    }
    void free_all_oracle()
    {
        if (live.empty())
            return;
        // orders verified for the state this transition reached (n!); the verdict for a state is
        // computed once per worker process and remembered (it is a function of the state)
        long f = 1;
        for (size_t i = 2; i <= live.size(); i++)
            f *= (long)i;
        mc::count("free_all_orders_covered", f);
        string mk = memo_key();
        if (memo_ok.count(mk))
            return;
        mc::crash_context("C10.heap.free_all");
        orders = 0;
        if ((int)live.size() > MAXLIVE)
            mc::harness_error("C10 heap: more live blocks than MAXLIVE");
        uint32_t trail[MAXLIVE];
        if (free_all_rec(live.data(), (int)live.size(), trail, 0))
        {
            if (orders != f)
                mc::harness_error("C10 heap: free-all enumerated %ld orders, expected %ld", orders, f);
            memo_ok.insert(mk);
        }
    }

    static string sg(const char *rt, const char *what) { return string("C10.heap.") + rt + "." + what; }
    void note_brk()
    {
        if (__brkval && (size_t)(__brkval - A) > g_dirty)
            g_dirty = __brkval - A;
    }
    void outc(const char *a, const char *b, long v)
    {
        string t(a);
        t += b;
        put(t, v, ' ');
        mc::outcome(t);
    }

    bool apply(int o) override
    {
        activate();
        Op p = decode(o);
        if ((p.kind == 0 || p.kind == 1) && (int)live.size() >= K)
            return false;
        if ((p.kind == 2 || p.kind == 3) && p.i >= (int)live.size())
            return false;
        bool had_free = __flp != nullptr;
        const char *rt;
        if (p.kind == 0 || p.kind == 1)
        {
            rt = p.kind == 0 ? "malloc" : "realloc_null";
            mc::crash_context("C10.heap.%s", rt);
            char *q = (char *)(p.kind == 0 ? lin_malloc(p.s) : lin_realloc(nullptr, p.s));
            note_brk();
            if (!q)
            {
                mc::violation(sg(rt, "null"), "%s returned NULL although the arena has no upper limit; %s", opname(o).c_str(), dump().c_str());
                return true;
            }
            if (!check_placement(rt, q, p.s, -1))
                return true;
            Blk b{(uint32_t)(q - A), (uint32_t)p.s};
            fill(b);
            insert_live(b);
            if (had_free)
                mc::nontrivial(); // served with a non-empty free list: exact fit / best fit / split / extend decision
            outc(rt, "->", b.off);
        }
        else if (p.kind == 2)
        {
            rt = "free";
            mc::crash_context("C10.heap.free");
            Blk b = live[p.i];
            live.erase(live.begin() + p.i);
            lin_free(A + b.off);
            if (had_free || !live.empty())
                mc::nontrivial(); // coalescing / break lowering decision with neighbours present
            outc(rt, "->brk", brk_off());
        }
        else
        {
            Blk b = live[p.i];
            // input class for signatures (by requested sizes, the caller's view)
            rt = p.s == 0 ? "realloc.size0" : p.s < b.req ? "realloc.shrink" : p.s == b.req ? "realloc.same" : "realloc.grow";
            mc::crash_context("C10.heap.%s", rt);
            char *q = (char *)lin_realloc(A + b.off, p.s);
            note_brk();
            if (!q && p.s == 0)
            {
                // ISO C allows realloc(p, 0) to release the block and return NULL (this port keeps a minimal block)
                live.erase(live.begin() + p.i);
                outc(rt, "->released brk", brk_off());
            }
            else if (!q)
            {
                mc::violation(sg(rt, "null"), "%s returned NULL although the arena has no upper limit; %s", opname(o).c_str(), dump().c_str());
                return true;
            }
            if (q)
            {
                if (!check_placement(rt, q, p.s, p.i))
                    return true;
                Blk nb{(uint32_t)(q - A), (uint32_t)p.s};
                uint32_t common = std::min(b.req, nb.req);
                int d = first_damage(nb, b.off, common);
                if (d >= 0)
                {
                    mc::violation(sg(rt, "prefix_lost"), "%s: block moved %u -> %u, byte %d of the common prefix (%u bytes) is %02x, was %02x", opname(o).c_str(),
                                  b.off, nb.off, d, common, (unsigned char)A[nb.off + d], pat(b.off, d));
                    return true;
                }
                live.erase(live.begin() + p.i);
                fill(nb);
                insert_live(nb);
                mc::nontrivial(); // every realloc of a live block takes one of: keep, shrink-split, grow into neighbour, extend top, move
                outc(rt, nb.off == b.off ? "->inplace brk" : nb.off < b.off ? "->down brk" : "->up brk", brk_off());
            }
        }
        // ---- after every operation
        vector<FreeEnt> fl;
        if (!walk_free(fl))
        {
            mc::violation(sg(rt, "free_list_corrupt"), "after %s the free list leaves [heap start, break) or does not end; %s", opname(o).c_str(), dump().c_str());
            return true;
        }
        if (!check_contents(rt, o))
            return true;
        if (live.empty() && !heap_is_initial())
        {
            mc::violation(sg(rt, "memory_lost"), "no live block left after %s but %s", opname(o).c_str(), dump().c_str());
            return true;
        }
        free_all_oracle();
        return true;
    }

    string key() override
    {
        activate();
        string k;
        k.reserve(96);
        k += 'b';
        put(k, brk_off(), '|');
        vector<FreeEnt> fl;
        bool ok = walk_free(fl);
        for (auto &f : fl)
        {
            put(k, f.off, ':');
            put(k, (long)f.sz, ',');
        }
        k += ok ? "|" : "!|";
        for (auto &b : live)
        {
            put(k, b.off, ':');
            put(k, (long)hdr_sz(b), ',');
        }
        if (&__allocation_counter)
        {
            k += "|c";
            put(k, __allocation_counter - (int)live.size(), ';');
        }
        return k;
    }
};
std::unordered_set<string> Heap::memo_ok;
Heap *Heap::active = nullptr;

// ---------------------------------------------------------------- long-lived histories (tree shape)
// As many simultaneously live blocks as the port allows (assert(__allocation_counter < 100) -> 99), mixed sizes
// from one byte to beyond 2^16, freed in LIFO / FIFO / stride-7 order, twice. Same oracles as the BFS: placement,
// alignment, disjointness (blocks and headers), contents, and the heap back at its initial break when all is freed.
static const size_t SZL[] = {1, 64, 65, 200, 1000, 70000};
static const int NLONG = 99;
static const char *LORD[] = {"lifo", "fifo", "stride7"};

struct LBlk
{
    long off;
    size_t req;
    unsigned tag;
};
static inline unsigned char lpat(unsigned tag, size_t j) { return (unsigned char)(0x3D + tag * 29 + j * 7 + (j >> 8) * 3); }

struct LongRun
{
    vector<LBlk> blk;
    bool failed = false;
    size_t hw = 0;
    void fail(const char *phase, const char *kind, const string &what)
    {
        mc::violation(string("C10.heap.long.") + phase + "." + kind, "%s (%zu blocks live, break at %ld)", what.c_str(), blk.size(),
                      __brkval ? (long)(__brkval - A) : -1L);
        failed = true;
    }
    // full = every byte; otherwise small blocks in full and the first/last 64 bytes of large ones
    bool intact(const LBlk &b, bool full, size_t &at)
    {
        for (size_t j = 0; j < b.req; j++)
        {
            if (!full && b.req > 1024 && j == 64)
                j = b.req - 64;
            if ((unsigned char)A[b.off + j] != lpat(b.tag, j))
            {
                at = j;
                return false;
            }
        }
        return true;
    }
    bool all_intact(const char *phase, bool full)
    {
        for (auto &b : blk)
        {
            size_t at;
            if (!intact(b, full, at))
            {
                fail(phase, "contents", mc::fmt("live block at offset %ld (requested %zu) changed at byte %zu", b.off, b.req, at));
                return false;
            }
        }
        return true;
    }
    void alloc_all(const char *phase, int rot, bool via_realloc)
    {
        mc::crash_context("C10.heap.long.%s", phase);
        for (int i = 0; (int)blk.size() < NLONG && !failed; i++)
        {
            size_t s = SZL[(i + rot) % 6];
            char *q = (char *)(via_realloc ? lin_realloc(nullptr, s) : lin_malloc(s));
            if (__brkval && (size_t)(__brkval - A) > hw)
                hw = __brkval - A;
            if (hw + 4096 > ARENA)
                return fail(phase, "memory_lost", mc::fmt("allocation #%d: the break has climbed to %zu of %zu arena bytes - freed memory is not reused", i + 1, (size_t)hw, (size_t)ARENA));
            if (!q)
                return fail(phase, "null", mc::fmt("allocation #%d of %zu bytes returned NULL", i + 1, s));
            if (q < A + sizeof(size_t) || !__brkval || q + s > __brkval)
                return fail(phase, "outside_arena", mc::fmt("allocation #%d: [%ld,%ld) is not inside [heap start, break)", i + 1, (long)(q - A), (long)(q - A + s)));
            if ((uintptr_t)q % alignof(size_t))
                return fail(phase, "misaligned", mc::fmt("allocation #%d at offset %ld", i + 1, (long)(q - A)));
            LBlk b{(long)(q - A), s, (unsigned)(i * 3 + rot)};
            for (auto &o : blk)
                if (b.off - (long)sizeof(size_t) < o.off + (long)o.req && o.off - (long)sizeof(size_t) < b.off + (long)b.req)
                    return fail(phase, "overlap", mc::fmt("allocation #%d [%ld,%ld) overlaps the live block (+header) at [%ld,%ld)", i + 1, b.off - 8, b.off + (long)b.req,
                                                          o.off - 8, o.off + (long)o.req));
            for (size_t j = 0; j < s; j++)
                A[b.off + j] = (char)lpat(b.tag, j);
            blk.push_back(b);
            all_intact(phase, false);
        }
        if (!failed)
            all_intact(phase, true);
    }
    // free the first `count` blocks of the given order (count < 0: all, and the heap must be back at its initial break)
    void free_some(int ord, int count)
    {
        string ph = string(count < 0 ? "free_" : "free_half_") + LORD[ord];
        mc::crash_context("C10.heap.long.%s", ph.c_str());
        vector<int> seq;
        int n = (int)blk.size();
        if (ord == 0)
            for (int i = n - 1; i >= 0; i--)
                seq.push_back(i);
        else if (ord == 1)
            for (int i = 0; i < n; i++)
                seq.push_back(i);
        else
            for (int s0 = 0; s0 < 7; s0++)
                for (int i = s0; i < n; i += 7)
                    seq.push_back(i);
        vector<LBlk> all = blk;
        vector<bool> gone(n, false);
        if (count >= 0 && count < n)
            seq.resize(count);
        for (int k : seq)
        {
            size_t at;
            if (!intact(all[k], true, at))
                return fail(ph.c_str(), "contents", mc::fmt("block at offset %ld (requested %zu) changed at byte %zu before it was freed", all[k].off, all[k].req, at));
            lin_free(A + all[k].off);
            gone[k] = true;
            blk.clear();
            for (int i = 0; i < n; i++)
                if (!gone[i])
                    blk.push_back(all[i]);
            if (!all_intact(ph.c_str(), false))
                return;
            // bounded free-list walk
            char *top = __brkval ? __brkval : A;
            int cnt = 0;
            for (struct __freelist *f = __flp; f; f = f->nx)
                if ((char *)f < A || (char *)f + sizeof(struct __freelist) > top || ++cnt > NLONG + 1)
                    return fail(ph.c_str(), "free_list_corrupt", "the free list leaves [heap start, break) or does not end");
        }
        if (count < 0 && (__flp != nullptr || !(__brkval == nullptr || __brkval == A)))
            fail(ph.c_str(), "memory_lost", mc::fmt("all %d blocks freed but the free list is %s", n, __flp ? "not empty" : "empty"));
    }
};

// One long history on the heap: >= 70000 (thorough 300000) malloc / free / realloc operations, up to 60 blocks live,
// fill level and size mix drifting; block placement, alignment, disjointness, realloc prefix after every operation,
// contents of all live blocks (small ones fully, large ones at both ends) after every operation, fully every 997.
static void heap_long_history_case()
{
    int variant = mc::choose(2);
    long nops = mc::thorough() ? 300000 : 70000;
    static const size_t SZH[2][8] = {{0, 1, 64, 65, 128, 200, 1000, 5000}, {8, 63, 64, 129, 256, 700, 70000, 3}};
    mc::describe("one history of %ld malloc/free/realloc operations, <= 60 live blocks, size set %d", nops, variant);
    if (Heap::active)
    {
        Heap::active->save();
        Heap::active = nullptr;
    }
    memset(A, 0xEE, std::min(g_dirty + 64, ARENA));
    __brkval = nullptr;
    __flp = nullptr;
    if (&__allocation_counter)
        __allocation_counter = 0;
    LongRun r;
    vector<LBlk> &blk = r.blk;
    const char *ph = "long_history";
    mc::crash_context("C10.heap.long_history");
    auto place = [&](long i, char *q, size_t s, int skip) -> bool {
        if (__brkval && (size_t)(__brkval - A) > r.hw)
            r.hw = __brkval - A;
        if (r.hw + 4096 > ARENA)
        { // at most 60 blocks are ever live: a break that climbs to the end of the arena means chunks are being lost
            r.fail(ph, "memory_lost", mc::fmt("operation %ld: the break has climbed to %zu of %zu arena bytes although at most 60 small blocks are live - freed memory is not reused", i, r.hw, (size_t)ARENA));
            return false;
        }
        if (q < A + sizeof(size_t) || !__brkval || q + s > __brkval)
        {
            r.fail(ph, "outside_arena", mc::fmt("operation %ld: [%ld,%ld) is not inside [heap start, break)", i, (long)(q - A), (long)(q - A + s)));
            return false;
        }
        if ((uintptr_t)q % alignof(size_t))
        {
            r.fail(ph, "misaligned", mc::fmt("operation %ld: block at offset %ld", i, (long)(q - A)));
            return false;
        }
        long lo = (q - A) - (long)sizeof(size_t), hi = (q - A) + (long)s;
        for (int k = 0; k < (int)blk.size(); k++)
            if (k != skip && lo < blk[k].off + (long)blk[k].req && blk[k].off - (long)sizeof(size_t) < hi)
            {
                r.fail(ph, "overlap", mc::fmt("operation %ld: block [%ld,%ld) overlaps the live block (+header) at [%ld,%ld)", i, lo, hi, blk[k].off - 8, blk[k].off + (long)blk[k].req));
                return false;
            }
        return true;
    };
    static const unsigned TARGET[] = {10, 55, 30, 3, 59, 20};
    for (long i = 0; i < nops && !r.failed; i++)
    {
        unsigned h = (unsigned)(i * 2654435761u) >> 10, h2 = (unsigned)((i + 29) * 40503u) >> 2;
        size_t s = SZH[variant][h2 % 8];
        unsigned target = TARGET[(i / 1013) % 6];
        int op = h % 10 < 3 && !blk.empty() ? 2 : blk.size() < target ? 0 : 1; // 30% realloc, else drift towards the target fill
        if (blk.empty())
            op = 0;
        if (op == 0 || (op == 2 && blk.size() >= 60 && false))
        {
            char *q = (char *)(h2 & 64 ? lin_realloc(nullptr, s) : lin_malloc(s));
            if (!q)
            {
                r.fail(ph, "null", mc::fmt("operation %ld: allocation of %zu bytes returned NULL", i, s));
                break;
            }
            if (!place(i, q, s, -1))
                break;
            LBlk b{(long)(q - A), s, (unsigned)(i % 1000003)};
            for (size_t j = 0; j < s; j++)
                A[b.off + j] = (char)lpat(b.tag, j);
            blk.push_back(b);
        }
        else if (op == 1)
        {
            size_t k = h2 % blk.size();
            size_t at;
            if (!r.intact(blk[k], true, at))
            {
                r.fail(ph, "contents", mc::fmt("operation %ld: block at offset %ld (requested %zu) changed at byte %zu before it was freed", i, blk[k].off, blk[k].req, at));
                break;
            }
            lin_free(A + blk[k].off);
            blk[k] = blk.back();
            blk.pop_back();
        }
        else
        {
            size_t k = h2 % blk.size();
            LBlk old = blk[k];
            char *q = (char *)lin_realloc(A + old.off, s);
            if (!q && s == 0)
            {
                blk[k] = blk.back();
                blk.pop_back();
            }
            else if (!q)
            {
                r.fail(ph, "null", mc::fmt("operation %ld: realloc to %zu bytes returned NULL", i, s));
                break;
            }
            else
            {
                if (!place(i, q, s, (int)k))
                    break;
                size_t common = std::min(old.req, s);
                for (size_t j = 0; j < common; j++)
                    if ((unsigned char)q[j] != lpat(old.tag, j))
                    {
                        r.fail(ph, "prefix_lost", mc::fmt("operation %ld: realloc(%zu -> %zu) moved %ld -> %ld, byte %zu of the common prefix changed", i, old.req, s, old.off, (long)(q - A), j));
                        break;
                    }
                if (r.failed)
                    break;
                LBlk b{(long)(q - A), s, (unsigned)(i % 1000003)};
                for (size_t j = 0; j < s; j++)
                    A[b.off + j] = (char)lpat(b.tag, j);
                blk[k] = b;
            }
        }
        if (!r.all_intact(ph, i % 997 == 0))
            break;
        if (i % 997 == 0 || blk.empty())
        {
            char *top = __brkval ? __brkval : A;
            int cnt = 0;
            for (struct __freelist *f = __flp; f; f = f->nx)
                if ((char *)f < A || (char *)f + sizeof(struct __freelist) > top || ++cnt > 200)
                {
                    r.fail(ph, "free_list_corrupt", mc::fmt("operation %ld: the free list leaves [heap start, break) or does not end", i));
                    break;
                }
            if (!r.failed && blk.empty() && (__flp != nullptr || !(__brkval == nullptr || __brkval == A)))
                r.fail(ph, "memory_lost", mc::fmt("operation %ld: no block live but the heap is not back at its initial break", i));
        }
    }
    if (!r.failed)
        r.free_some(1, -1); // free the rest in allocation-table order: the heap must be back at its initial break
    g_dirty = std::max(g_dirty, r.hw);
    mc::more_cases((uint64_t)nops - 1, (uint64_t)nops - 1);
    mc::nontrivial();
    mc::outcome(mc::fmt("hw %zu %s", r.hw, r.failed ? "violation" : "ok"));
}

static void heap_long_case()
{
    int c = mc::choose(3 * 3 * 6 * 2);
    int ord1 = c % 3, ord2 = c / 3 % 3, rot = c / 9 % 6, api = c / 54;
    mc::describe("99 live blocks of sizes {1,64,65,200,1000,70000} rotated by %d via %s: free half in %s order, allocate into the holes, free all in %s order, allocate again, free all", rot, api ? "realloc(NULL,s)" : "malloc(s)", LORD[ord1],
                 LORD[ord2]);
    if (Heap::active)
    {
        Heap::active->save();
        Heap::active = nullptr;
    }
    memset(A, 0xEE, std::min(g_dirty + 64, ARENA));
    __brkval = nullptr;
    __flp = nullptr;
    if (&__allocation_counter)
        __allocation_counter = 0;
    LongRun r;
    r.alloc_all("alloc", rot, api);
    if (!r.failed)
        r.free_some(ord1, NLONG / 2); // leaves holes of every size, also > 2^16
    if (!r.failed)
        r.alloc_all("alloc_into_holes", rot + 1, api); // exact fit / best fit / split / extend at the large sizes
    if (!r.failed)
        r.free_some(ord2, -1);
    if (!r.failed)
        r.alloc_all("alloc_again", rot + 2, api);
    if (!r.failed)
        r.free_some(ord1, -1);
    g_dirty = std::max(g_dirty, r.hw);
    mc::nontrivial(); // every case runs at the allocator's own live-block limit and crosses 2^16 in sizes and offsets
    mc::outcome(mc::fmt("hw %zu %s", r.hw, r.failed ? "violation" : "ok"));
}

MC_INIT
{
    // K = bound on simultaneously live blocks. The state space for a fixed K is finite (the break is
    // bounded: every gap that cannot serve a request is smaller than the largest request), so the
    // searches run to fix-point where that fits the budget and to a stated depth otherwise.
    auto add = [](int k, int dq, int dt, bool thorough_only) {
        mc::BfsOpts o;
        o.depth_quick = dq;
        o.depth_thorough = dt;
        o.max_states = 20000000;
        o.thorough_only = thorough_only;
        mc::add_bfs(mc::fmt("heap_live%d", k), [k] { return std::unique_ptr<mc::Model>(new Heap(k)); }, o);
    };
    mc::add_check("heap_long", heap_long_case);
    mc::add_check("heap_long_history", heap_long_history_case);
    add(2, 1000, 1000, false); // fix-point (depth 38)
    add(3, 9, 12, false);
    add(4, 8, 10, false);
#if !C10_ASSERT_BUILD
    add(5, 8, 8, true); // thorough only, structural build only (depth 9 = 5.4e6 states / 4.9e7 transitions does not fit the 1200 s tier budget)
#endif
}
MC_MAIN
