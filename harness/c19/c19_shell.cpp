// C19 — C-string command-line routines: argvc_internal_split, mshell_execute, mshell_tables_execute,
// rshell_execute, rshell_tables_execute.  Every line of length 0..L over the alphabet below (no NUL: it
// is the terminator), held as "bytes, one NUL, nothing after"; command tables {a, ab}; recording handlers.
#include "c19_common.hpp"
#include "c19_wrap.hpp"
#include <algorithm>
#include <igris/shell/mshell.h>
#include <igris/shell/rshell.h>

// space a b " ' / . tab LF CR
static const char SIGMA[] = {' ', 'a', 'b', '"', '\'', '/', '.', '\t', '\n', '\r'};
static const int NSIG = 10;
#ifdef C19_GUARD
static int line_len() { return mc::thorough() ? 6 : 5; } // the guard-page build repeats the space one length shorter
#else
static int line_len() { return mc::thorough() ? 7 : 6; }
#endif
static const int SHELL_ARGCMAX = 10; // SSHELL_ARGCMAX in mshell.c / rshell.c

// ---------------------------------------------------------------- recording handlers
struct Call
{
    int which, argc;
    Toks argv;
    std::vector<long> off;
};
static std::vector<Call> g_calls;
static const char *g_line;
static int g_handler_mode = 0;   // 0 = leaves argv alone, 1 = repoints every entry to its own string, 2 = rotates the entries
static char *g_own_string;        // "zz": nothing accessible in front of it (left redzone / PROT_NONE page) nor behind it
static bool g_line_guard_before;  // guard build: put the line flush BEHIND a PROT_NONE page instead of in front of one
// the command line: exactly sized; ASan guards both ends, the guard build the end chosen by g_line_guard_before
struct LineBuf
{
    CS *cs = nullptr;
    guard::Region *rg = nullptr;
    char *p;
    LineBuf(const Str &s)
    {
        if (g_line_guard_before)
        {
            rg = new guard::Region(s.size() + 1, false);
            p = (char *)rg->p;
            memcpy(p, s.data(), s.size());
            p[s.size()] = 0;
        }
        else
        {
            cs = new CS(s);
            p = cs->p;
        }
    }
    ~LineBuf()
    {
        delete cs;
        delete rg;
    }
};
static void record(int which, int argc, char **argv)
{
    Call c;
    c.which = which;
    c.argc = argc;
    if (argc >= 0 && argc <= 64)
        for (int i = 0; i < argc; i++)
        {
            c.argv.push_back(Str(argv[i]));
            c.off.push_back((long)(argv[i] - g_line));
        }
    g_calls.push_back(c);
    // A handler owns the argv array it is given (char **, as in main): it may repoint entries to strings of its
    // own or reorder them.  The dispatcher must not use argv after the handler has returned.
    if (g_handler_mode == 1)
        for (int i = 0; i < argc; i++)
            argv[i] = g_own_string;
    else if (g_handler_mode == 2 && argc >= 1)
    {
        char *first = argv[0];
        for (int i = 0; i + 1 < argc; i++)
            argv[i] = argv[i + 1];
        argv[argc - 1] = first;
    }
}
static int m_a(int argc, char **argv)
{
    record(0, argc, argv);
    return 40;
}
static int m_ab(int argc, char **argv)
{
    record(1, argc, argv);
    return 41;
}
static int r_a(int argc, char **argv, char *, int)
{
    record(0, argc, argv);
    return 40;
}
static int r_ab(int argc, char **argv, char *, int)
{
    record(1, argc, argv);
    return 41;
}
static int m_c300(int argc, char **argv)
{
    record(2, argc, argv);
    return 42;
}
static int r_c300(int argc, char **argv, char *, int)
{
    record(2, argc, argv);
    return 42;
}
static const std::string NAME300(300, 'c'); // a 300-character command name, only in the tables of the long sub-checks
// command names are const: read-only memory, exactly sized, the terminator is the last accessible byte
static const char *N_A = frozen_cstr("a");
static const char *N_AB = frozen_cstr("ab");
static const char *N_C300 = frozen_cstr(NAME300);
static const struct mshell_command ML_BOTH[] = {{N_A, m_a, "first"}, {N_AB, m_ab, nullptr}, {N_C300, m_c300, nullptr}, {nullptr, nullptr, nullptr}};
static const struct mshell_command ML_T2[] = {{N_AB, m_ab, nullptr}, {N_C300, m_c300, "long"}, {nullptr, nullptr, nullptr}};
static const struct rshell_command RL_BOTH[] = {{N_A, r_a, "first"}, {N_AB, r_ab, nullptr}, {N_C300, r_c300, nullptr}, {nullptr, nullptr, nullptr}};
static const struct rshell_command RL_T2[] = {{N_AB, r_ab, nullptr}, {N_C300, r_c300, "long"}, {nullptr, nullptr, nullptr}};
static const struct mshell_command M_BOTH[] = {{N_A, m_a, "first"}, {N_AB, m_ab, nullptr}, {nullptr, nullptr, nullptr}};
static const struct mshell_command M_T1[] = {{N_A, m_a, "first"}, {nullptr, nullptr, nullptr}};
static const struct mshell_command M_T2[] = {{N_AB, m_ab, nullptr}, {nullptr, nullptr, nullptr}};
static const struct mshell_command *const M_TABLES[] = {M_T1, M_T2, nullptr};
static const struct rshell_command R_BOTH[] = {{N_A, r_a, "first"}, {N_AB, r_ab, nullptr}, {nullptr, nullptr, nullptr}};
static const struct rshell_command R_T1[] = {{N_A, r_a, "first"}, {nullptr, nullptr, nullptr}};
static const struct rshell_command R_T2[] = {{N_AB, r_ab, nullptr}, {nullptr, nullptr, nullptr}};
static const struct rshell_command_table R_TABLES[] = {{R_T1, 0}, {R_T2, 1}, {nullptr, 0}}; // second table drops argv[0]
static const struct mshell_command *const ML_TABLES[] = {M_T1, ML_T2, nullptr};
static const struct rshell_command_table RL_TABLES[] = {{R_T1, 0}, {RL_T2, 1}, {nullptr, 0}};

// ---------------------------------------------------------------- tables for two-call histories
// the same names bound to other handlers (ids 3, 4), or absent
static int m_x(int argc, char **argv)
{
    record(3, argc, argv);
    return 43;
}
static int m_y(int argc, char **argv)
{
    record(4, argc, argv);
    return 44;
}
static int r_x(int argc, char **argv, char *, int)
{
    record(3, argc, argv);
    return 43;
}
static int r_y(int argc, char **argv, char *, int)
{
    record(4, argc, argv);
    return 44;
}
static const struct mshell_command MH1[] = {{N_A, m_x, nullptr}, {N_AB, m_y, nullptr}, {nullptr, nullptr, nullptr}};
static const struct mshell_command MH4[] = {{nullptr, nullptr, nullptr}};
static const struct rshell_command RH1[] = {{N_A, r_x, nullptr}, {N_AB, r_y, nullptr}, {nullptr, nullptr, nullptr}};
static const struct rshell_command RH4[] = {{nullptr, nullptr, nullptr}};
// table k: 0 = {a->0, ab->1}, 1 = {a->3, ab->4}, 2 = {ab->1}, 3 = {a->0}, 4 = {}
static const struct mshell_command *const MH[5] = {M_BOTH, MH1, M_T2, M_T1, MH4};
static const struct rshell_command *const RH[5] = {R_BOTH, RH1, R_T2, R_T1, RH4};
static const struct mshell_command *const MHL[5][3] = {{M_T1, M_T2, nullptr}, {MH1, nullptr, nullptr}, {MH4, M_T2, nullptr}, {M_T1, MH4, nullptr}, {MH4, nullptr, nullptr}};
static const struct rshell_command_table RHL[5][3] = {{{R_T1, 0}, {R_T2, 0}, {nullptr, 0}},
                                                      {{RH1, 0}, {nullptr, 0}, {nullptr, 0}},
                                                      {{RH4, 0}, {R_T2, 0}, {nullptr, 0}},
                                                      {{R_T1, 0}, {RH4, 0}, {nullptr, 0}},
                                                      {{RH4, 0}, {nullptr, 0}, {nullptr, 0}}};
static int history_handler(int table, const Str &word)
{
    static const int A[5] = {0, 3, -1, 0, -1}, AB[5] = {1, 4, 1, -1, -1};
    return word == "a" ? A[table] : word == "ab" ? AB[table] : -1;
}

// ---------------------------------------------------------------- reference for one line
struct LineRef
{
    std::vector<Run> runs; // white-space separated words
    Toks toks;
    int ntok;  // words the dispatcher may pass on (<= 10)
    int which; // command named by the first word, -1 none
};
static LineRef line_ref(const Str &s, bool longtab = false)
{
    LineRef r;
    r.runs = ref_runs(s, s.size(), is_ws4);
    for (auto &x : r.runs)
        r.toks.push_back(s.substr(x.off, x.len));
    r.ntok = (int)std::min<size_t>(r.runs.size(), SHELL_ARGCMAX);
    r.which = -1;
    if (r.ntok > 0)
        r.which = r.toks[0] == "a" ? 0 : r.toks[0] == "ab" ? 1 : -1;
    if (r.ntok > 0 && longtab && r.toks[0] == NAME300)
        r.which = 2;
    return r;
}

// after a dispatcher returned: exactly the right handler ran, once, with the reference argv
static void check_dispatch(const char *fn, const Str &s, const LineRef &ref, int drop, int rc, const char *suffix = "")
{
    mc::outcome(mc::fmt("%s calls=%zu which=%d rc=%d", fn, g_calls.size(), g_calls.empty() ? -1 : g_calls[0].which, rc != 0));
    Str sig = Str("C19.") + fn;
    if (ref.which < 0)
    {
        if (!g_calls.empty())
            mc::violation(sig + ".handler_called_without_command" + suffix, "%s(%s): handler %d ran, first word %s names no command", fn,
                          escb(s).c_str(), g_calls[0].which, ref.ntok ? escb(ref.toks[0]).c_str() : "(none)");
        return;
    }
    if (g_calls.size() != 1)
    {
        mc::violation(sig + ".handler_not_called" + suffix, "%s(%s): %zu handler calls, first word %s names command %d", fn,
                      escb(s).c_str(), g_calls.size(), escb(ref.toks[0]).c_str(), ref.which);
        return;
    }
    const Call &c = g_calls[0];
    if (c.which != ref.which)
        mc::violation(sig + ".wrong_handler" + suffix, "%s(%s): handler %d ran, want %d", fn, escb(s).c_str(), c.which, ref.which);
    if (c.argc + drop > SHELL_ARGCMAX)
        mc::violation(sig + ".argc_exceeds_max" + suffix, "%s(%s): handler got argc=%d (+%d dropped)", fn, escb(s).c_str(), c.argc, drop);
    Toks want(ref.toks.begin() + drop, ref.toks.begin() + ref.ntok);
    if (c.argc != (int)want.size() || c.argv != want)
        mc::violation(sig + ".argv" + suffix, "%s(%s): handler got argc=%d argv=%s, want argc=%zu argv=%s", fn, escb(s).c_str(), c.argc,
                      escb(c.argv).c_str(), want.size(), escb(want).c_str());
    else
        for (size_t i = 0; i < want.size(); i++)
            if (c.off[i] != (long)ref.runs[i + drop].off)
                mc::violation(sig + ".argv" + suffix, "%s(%s): argv[%zu] points at offset %ld, want %zu", fn, escb(s).c_str(), i, c.off[i],
                              ref.runs[i + drop].off);
}

static void ctx(const char *fn, const LineRef &ref, const Str &s, const char *suffix)
{
    // a blank line is non-empty and has no word
    mc::crash_context("C19.%s.memory%s%s", fn, (ref.runs.empty() && !s.empty()) ? ".blank_line" : "", suffix);
}

static void check_shells(const Str &s, int which_family, bool longtab = false, const char *sfx_in = nullptr)
{
    LineRef ref = line_ref(s, longtab);
    const char *sfx0 = sfx_in ? sfx_in : longtab ? ".long_input" : "";
    static const char *FN[4] = {"mshell_execute", "mshell_tables_execute", "rshell_execute", "rshell_tables_execute"};
    // every dispatcher with and without the optional result pointer: the handler must run either way
    for (int d = which_family * 2; d < which_family * 2 + 2; d++)
        for (int null_ret = 0; null_ret < 2; null_ret++)
        {
            Str sfx = Str(sfx0) + (null_ret ? ".null_retptr" : "");
            LineBuf b(s);
            Exact out(4, 1);
            g_calls.clear();
            g_line = b.p;
            int ret = -7, rc;
            int *rp = null_ret ? nullptr : &ret;
            ctx(FN[d], ref, s, sfx.c_str());
            if (d == 0)
                rc = mshell_execute(b.p, longtab ? ML_BOTH : M_BOTH, rp);
            else if (d == 1)
                rc = mshell_tables_execute(b.p, longtab ? ML_TABLES : M_TABLES, rp);
            else if (d == 2)
                rc = rshell_execute(b.p, longtab ? RL_BOTH : R_BOTH, rp, 0, out.p, (int)out.n);
            else
                rc = rshell_tables_execute(b.p, longtab ? RL_TABLES : R_TABLES, rp, out.p, (int)out.n);
            mc::crash_context("C19.harness");
            check_dispatch(FN[d], s, ref, (d == 3 && ref.which >= 1) ? 1 : 0, rc, sfx.c_str()); // second rshell table drops argv[0]
        }
}

// argvc_internal_split on a terminated line with exactly argcmax argv slots
static void check_argvc_split(const Str &s, const std::vector<int> &maxs = {0, 1, 2, 10}, const char *sfx = "")
{
    std::vector<Run> runs = ref_runs(s, s.size(), is_ws4);
    for (int argcmax : maxs)
    {
        int want = (int)std::min<size_t>(runs.size(), (size_t)argcmax);
        if ((int)runs.size() > argcmax)
            mc::nontrivial();
        CS b(s);
        Exact av((size_t)argcmax * sizeof(char *), 1, 0);
        char **argv = (char **)av.p;
        mc::crash_context("C19.argvc_split.memory%s", sfx);
        int argc = w_argvc_split(b.p, argv, argcmax);
        mc::crash_context("C19.harness");
        mc::outcome(mc::fmt("argvc_split argc=%d", argc));
        if (argc > argcmax)
            mc::violation(Str("C19.argvc_split.argc_exceeds_max") + sfx, "split(%s, argcmax=%d) returned %d", escb(s).c_str(), argcmax, argc);
        else if (argc != want)
            mc::violation(Str("C19.argvc_split.argc") + sfx, "split(%s, argcmax=%d) returned %d, want %d", escb(s).c_str(), argcmax, argc, want);
        for (int i = 0; i < argc && i < want; i++)
        {
            long off = argv[i] - b.p;
            if (off != (long)runs[i].off)
            {
                mc::violation(Str("C19.argvc_split.argv") + sfx, "split(%s, argcmax=%d): argv[%d] at offset %ld, want %zu", escb(s).c_str(),
                              argcmax, i, off, runs[i].off);
                break;
            }
            Str got(argv[i]), w = s.substr(runs[i].off, runs[i].len);
            if (got != w)
            {
                mc::violation(Str("C19.argvc_split.argv") + sfx, "split(%s, argcmax=%d): argv[%d] = %s, want %s", escb(s).c_str(), argcmax, i,
                              escb(got).c_str(), escb(w).c_str());
                break;
            }
        }
    }
    mc::more_cases(maxs.size() - 1);
}
// the same line, not terminated, through argvc_internal_split_n (argc only; argv is checked in c19_text/c19_long)
static void check_split_n_argc(const Str &s, const std::vector<int> &maxs, const char *sfx)
{
    std::vector<Run> runs = ref_runs(s, s.size(), is_ws4);
    for (int argcmax : maxs)
    {
        PL b(s);
        Exact av((size_t)argcmax * sizeof(char *), 1, 0);
        mc::crash_context("C19.argvc_split_n.memory%s", sfx);
        int argc = w_argvc_split_n(b.p, (int)b.n, (char **)av.p, argcmax);
        mc::crash_context("C19.harness");
        int want = (int)std::min<size_t>(runs.size(), (size_t)argcmax);
        if (argc > argcmax)
            mc::violation(Str("C19.argvc_split_n.argc_exceeds_max") + sfx, "split_n(%s, argcmax=%d) returned %d", escb(s).c_str(), argcmax,
                          argc);
        else if (argc != want)
            mc::violation(Str("C19.argvc_split_n.argc") + sfx, "split_n(%s, argcmax=%d) returned %d, want %d", escb(s).c_str(), argcmax,
                          argc, want);
    }
    mc::more_cases(maxs.size());
}

MC_INIT
{
    mc::add_check("argvc_split", [] {
        Str s = enum_str(SIGMA, NSIG, line_len(), 2);
        mc::describe("argvc_internal_split line=%s argcmax in {0,1,2,10}", esc(s).c_str());
        check_argvc_split(s);
    });
    mc::add_check("mshell", [] {
        Str s = enum_str(SIGMA, NSIG, line_len(), 2);
        mc::describe("mshell_execute/mshell_tables_execute line=%s tables {a,ab}", esc(s).c_str());
        LineRef r = line_ref(s);
        if (r.which >= 0 || (r.runs.empty() && !s.empty()))
            mc::nontrivial(); // dispatches, or is a blank line
        check_shells(s, 0);
        mc::more_cases(3);
    });
    mc::add_check("rshell", [] {
        Str s = enum_str(SIGMA, NSIG, line_len(), 2);
        mc::describe("rshell_execute/rshell_tables_execute line=%s tables {a,ab}", esc(s).c_str());
        LineRef r = line_ref(s);
        if (r.which >= 0 || (r.runs.empty() && !s.empty()))
            mc::nontrivial();
        check_shells(s, 1);
        mc::more_cases(3);
    });

    // lines with 1..13 words: the 10-slot argv of the dispatchers and argcmax of the splitters
    mc::add_check("many_words", [] {
        static const char *FIRST[4] = {"a", "ab", "b", "abb"};
        static const char *SEP[3] = {" ", "\t", " \r\n "};
        static const char *LEAD[2] = {"", " "};
        static const char *TRAIL[3] = {"", " ", "\n"};
        int u = mc::choose(4 * 13 * 3 * 2 * 3);
        int f = u % 4, k = (u / 4) % 13, sp = (u / 52) % 3, ld = (u / 156) % 2, tr = (u / 312) % 3;
        Str s = LEAD[ld];
        s += FIRST[f];
        for (int i = 0; i < k; i++)
        {
            s += SEP[sp];
            s += (i % 2) ? "b" : "ab";
        }
        s += TRAIL[tr];
        mc::describe("%d-word line=%s through both splitters and the four dispatchers", k + 1, esc(s).c_str());
        if (k + 1 > SHELL_ARGCMAX)
            mc::nontrivial();
        check_argvc_split(s);
        check_shells(s, 0);
        check_shells(s, 1);
        check_split_n_argc(s, {0, 1, 2, 10}, "");
        mc::more_cases(4);
    });

    // ---------------------------------------------------------------- long lines (see c19_long.cpp for the rationale)
    mc::add_check("long_lines", [] {
        int v = 0;
        Str s = long_input(' ', "long terminated line through argvc_internal_split and the four dispatchers (tables a, ab, c^300)", &v);
        if (s.size() > 255)
            mc::nontrivial();
        std::vector<int> maxs = {10, 255, 256, 1000};
        if (s.size() > 65000)
            maxs.push_back(40000);
        for (int rep = 0; rep < 2; rep++)
        {
            check_argvc_split(s, maxs, ".long_input");
            check_shells(s, 0, true);
            check_shells(s, 1, true);
            for (size_t i = 0; i < s.size(); i++) // second pass: tab / CR LF instead of the blank
                if (s[i] == ' ')
                    s[i] = "\t\r\n"[i % 3];
        }
        mc::more_cases(7, 7);
    });

    // 255..1000 one-letter words behind a first word that is a, ab, b or the 300-character command
    mc::add_check("long_words", [] {
        static const int COUNTS[5] = {255, 256, 257, 300, 1000};
        static const char *SEP[3] = {" ", "\t", "\r\n"};
        int u = mc::choose(5 * 3 * 4 * 2);
        int n = COUNTS[u % 5], sp = (u / 5) % 3, f = (u / 15) % 4, lead = u / 60;
        Str s = lead ? " " : "";
        s += f == 0 ? "a" : f == 1 ? "ab" : f == 2 ? "b" : NAME300;
        for (int i = 1; i < n; i++)
        {
            s += SEP[sp];
            s.push_back("ab"[i % 2]);
        }
        mc::describe("%d words (first %s, then one-letter words), separator %s, argcmax {10,255,256,1000}", n,
                     f == 3 ? "c^300" : f == 0 ? "a" : f == 1 ? "ab" : "b", esc(SEP[sp]).c_str());
        mc::nontrivial();
        check_argvc_split(s, {10, 255, 256, 1000}, ".long_input");
        check_split_n_argc(s, {10, 255, 256, 1000}, ".long_input");
        check_shells(s, 0, true);
        check_shells(s, 1, true);
        mc::more_cases(4, 4);
    });

    // ---------------------------------------------------------------- bytes >= 0x80 in command lines
    // 0x89 / 0xA0 / ... are not white space and not part of any command name: "a\xA0" is one word that names nothing
    mc::add_check("high_bytes_lines", [] {
        static const char HB[9] = {' ', 'a', 'b', '\t', (char)0x80, (char)0x89, (char)0xA0, (char)0xE0, (char)0xFF};
        Str s = enum_str(HB, 9, mc::thorough() ? 6 : 5, 2);
        mc::describe("bytes>=0x80: line=%s through argvc_internal_split and the four dispatchers", esc(s).c_str());
        bool high = false;
        for (unsigned char c : s)
            high |= c >= 0x80;
        if (high)
            mc::nontrivial();
        check_argvc_split(s, {1, 10}, ".high_bytes");
        check_shells(s, 0, false, ".high_bytes");
        check_shells(s, 1, false, ".high_bytes");
        mc::more_cases(4, high ? 4 : 0);
    });

    // ---------------------------------------------------------------- histories of two calls with different tables
    // A dispatcher is a function of (line, table): the second call must not remember the first.  One case = one
    // dispatcher x (table, line) x (table, line) in a process in which no dispatcher has run yet.
    mc::add_check("dispatch_history", [] {
        static const char *LINES[5] = {"a", "ab", "a b", "b", " "};
        static const char *FN[4] = {"mshell_execute", "mshell_tables_execute", "rshell_execute", "rshell_tables_execute"};
        int u = mc::choose(4 * 25 * 25);
        mc::request_restart(); // hidden statics survive in the process: every case starts in a fresh worker
        int d = u / 625, k[2] = {(u / 125) % 5, (u / 25) % 5}, l[2] = {(u / 5) % 5, u % 5};
        mc::describe("%s(%s, table %d) then %s(%s, table %d); tables: 0={a->0,ab->1} 1={a->3,ab->4} 2={ab->1} 3={a->0} 4={}", FN[d],
                     esc(LINES[l[0]]).c_str(), k[0], FN[d], esc(LINES[l[1]]).c_str(), k[1]);
        if (k[0] != k[1])
            mc::nontrivial();
        for (int call = 0; call < 2; call++)
        {
            Str s = LINES[l[call]];
            LineRef ref = line_ref(s);
            ref.which = ref.ntok ? history_handler(k[call], ref.toks[0]) : -1;
            CS b(s);
            Exact out(4, 1);
            g_calls.clear();
            g_line = b.p;
            int ret = -7, rc;
            mc::crash_context("C19.%s.memory.history", FN[d]);
            if (d == 0)
                rc = mshell_execute(b.p, MH[k[call]], &ret);
            else if (d == 1)
                rc = mshell_tables_execute(b.p, MHL[k[call]], &ret);
            else if (d == 2)
                rc = rshell_execute(b.p, RH[k[call]], &ret, 0, out.p, (int)out.n);
            else
                rc = rshell_tables_execute(b.p, RHL[k[call]], &ret, out.p, (int)out.n);
            mc::crash_context("C19.harness");
            check_dispatch(FN[d], s, ref, 0, rc, call ? ".second_call" : ".first_call");
        }
        mc::more_cases(1, k[0] != k[1] ? 1 : 0);
    });

    // ---------------------------------------------------------------- handlers that modify the argv array they get
    // all lines of length 0..5 (thorough 6) over {space,a,b,tab} x {repoint every entry to the handler's own string,
    // rotate the entries} x both guard placements of the line, through the four dispatchers (with and without retptr)
    mc::add_check("argv_modifying_handlers", [] {
        static const char SG[4] = {' ', 'a', 'b', '\t'};
        Str s = enum_str(SG, 4, mc::thorough() ? 6 : 5, 3);
        mc::describe("line=%s, handlers repoint / rotate their argv entries; the line is exactly sized and guarded on both sides", esc(s).c_str());
        if (!g_own_string)
        {
#ifdef C19_GUARD
            g_own_string = (char *)(new guard::Region(3, false))->p; // flush behind a PROT_NONE page
#else
            g_own_string = (char *)malloc(3); // exactly sized: redzones on both sides
#endif
            memcpy(g_own_string, "zz", 3);
        }
        LineRef r = line_ref(s);
        if (r.which >= 0)
            mc::nontrivial();
        for (int mode = 1; mode <= 2; mode++)
            for (int before = 0; before < 2; before++)
            {
                g_handler_mode = mode;
                g_line_guard_before = before;
                Str sfx = mode == 1 ? ".handler_repoints_argv" : ".handler_rotates_argv";
                check_shells(s, 0, false, sfx.c_str());
                check_shells(s, 1, false, sfx.c_str());
            }
        g_handler_mode = 0;
        g_line_guard_before = false;
        mc::more_cases(31, r.which >= 0 ? 31 : 0);
    });
}
