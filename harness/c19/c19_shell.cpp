// C19 — C-string command-line routines: argvc_internal_split, mshell_execute, mshell_tables_execute,
// rshell_execute, rshell_tables_execute.  Every line of length 0..L over the alphabet below (no NUL: it
// is the terminator), held as "bytes, one NUL, nothing after"; command tables {a, ab}; recording handlers.
#include "c19_common.hpp"
#include "c19_wrap.hpp"
#include <algorithm>
#include <igris/shell/mshell.h>
#include <igris/shell/rshell.h>

// space a b " ' / . tab LF CR
static const char SIGMA[] = {' ', 'a', 'b', '"', '\'', '/', '.', '\t', '\n', '\r'};
static const int NSIG = 10;
#ifdef C19_GUARD
static int line_len() { return mc::thorough() ? 6 : 5; } // the guard-page build repeats the space one length shorter
#else
static int line_len() { return mc::thorough() ? 7 : 6; }
#endif
static const int SHELL_ARGCMAX = 10; // SSHELL_ARGCMAX in mshell.c / rshell.c

// ---------------------------------------------------------------- recording handlers
struct Call
{
    int which, argc;
    Toks argv;
    std::vector<long> off;
};
static std::vector<Call> g_calls;
static const char *g_line;
static void record(int which, int argc, char **argv)
{
    Call c;
    c.which = which;
    c.argc = argc;
    if (argc >= 0 && argc <= 64)
        for (int i = 0; i < argc; i++)
        {
            c.argv.push_back(Str(argv[i]));
            c.off.push_back((long)(argv[i] - g_line));
        }
    g_calls.push_back(c);
}
static int m_a(int argc, char **argv)
{
    record(0, argc, argv);
    return 40;
}
static int m_ab(int argc, char **argv)
{
    record(1, argc, argv);
    return 41;
}
static int r_a(int argc, char **argv, char *, int)
{
    record(0, argc, argv);
    return 40;
}
static int r_ab(int argc, char **argv, char *, int)
{
    record(1, argc, argv);
    return 41;
}
static const struct mshell_command M_BOTH[] = {{"a", m_a, "first"}, {"ab", m_ab, nullptr}, {nullptr, nullptr, nullptr}};
static const struct mshell_command M_T1[] = {{"a", m_a, "first"}, {nullptr, nullptr, nullptr}};
static const struct mshell_command M_T2[] = {{"ab", m_ab, nullptr}, {nullptr, nullptr, nullptr}};
static const struct mshell_command *const M_TABLES[] = {M_T1, M_T2, nullptr};
static const struct rshell_command R_BOTH[] = {{"a", r_a, "first"}, {"ab", r_ab, nullptr}, {nullptr, nullptr, nullptr}};
static const struct rshell_command R_T1[] = {{"a", r_a, "first"}, {nullptr, nullptr, nullptr}};
static const struct rshell_command R_T2[] = {{"ab", r_ab, nullptr}, {nullptr, nullptr, nullptr}};
static const struct rshell_command_table R_TABLES[] = {{R_T1, 0}, {R_T2, 1}, {nullptr, 0}}; // second table drops argv[0]

// ---------------------------------------------------------------- reference for one line
struct LineRef
{
    std::vector<Run> runs; // white-space separated words
    Toks toks;
    int ntok;  // words the dispatcher may pass on (<= 10)
    int which; // command named by the first word, -1 none
};
static LineRef line_ref(const Str &s)
{
    LineRef r;
    r.runs = ref_runs(s, s.size(), is_ws4);
    for (auto &x : r.runs)
        r.toks.push_back(s.substr(x.off, x.len));
    r.ntok = (int)std::min<size_t>(r.runs.size(), SHELL_ARGCMAX);
    r.which = -1;
    if (r.ntok > 0)
        r.which = r.toks[0] == "a" ? 0 : r.toks[0] == "ab" ? 1 : -1;
    return r;
}

// after a dispatcher returned: exactly the right handler ran, once, with the reference argv
static void check_dispatch(const char *fn, const Str &s, const LineRef &ref, int drop, int rc)
{
    mc::outcome(mc::fmt("%s calls=%zu which=%d rc=%d", fn, g_calls.size(), g_calls.empty() ? -1 : g_calls[0].which, rc != 0));
    Str sig = Str("C19.") + fn;
    if (ref.which < 0)
    {
        if (!g_calls.empty())
            mc::violation(sig + ".handler_called_without_command", "%s(%s): handler %d ran, first word %s names no command", fn,
                          esc(s).c_str(), g_calls[0].which, ref.ntok ? esc(ref.toks[0]).c_str() : "(none)");
        return;
    }
    if (g_calls.size() != 1)
    {
        mc::violation(sig + ".handler_not_called", "%s(%s): %zu handler calls, first word %s names command %d", fn,
                      esc(s).c_str(), g_calls.size(), esc(ref.toks[0]).c_str(), ref.which);
        return;
    }
    const Call &c = g_calls[0];
    if (c.which != ref.which)
        mc::violation(sig + ".wrong_handler", "%s(%s): handler %d ran, want %d", fn, esc(s).c_str(), c.which, ref.which);
    if (c.argc + drop > SHELL_ARGCMAX)
        mc::violation(sig + ".argc_exceeds_max", "%s(%s): handler got argc=%d (+%d dropped)", fn, esc(s).c_str(), c.argc, drop);
    Toks want(ref.toks.begin() + drop, ref.toks.begin() + ref.ntok);
    if (c.argc != (int)want.size() || c.argv != want)
        mc::violation(sig + ".argv", "%s(%s): handler got argc=%d argv=%s, want argc=%zu argv=%s", fn, esc(s).c_str(), c.argc,
                      esc(c.argv).c_str(), want.size(), esc(want).c_str());
    else
        for (size_t i = 0; i < want.size(); i++)
            if (c.off[i] != (long)ref.runs[i + drop].off)
                mc::violation(sig + ".argv", "%s(%s): argv[%zu] points at offset %ld, want %zu", fn, esc(s).c_str(), i, c.off[i],
                              ref.runs[i + drop].off);
}

static void ctx(const char *fn, const LineRef &ref, const Str &s)
{
    // a blank line is non-empty and has no word
    mc::crash_context("C19.%s.memory%s", fn, (ref.runs.empty() && !s.empty()) ? ".blank_line" : "");
}

static void check_shells(const Str &s, int which_family)
{
    LineRef ref = line_ref(s);
    if (which_family == 0)
    {
        {
            CS b(s);
            g_calls.clear();
            g_line = b.p;
            int ret = -7;
            ctx("mshell_execute", ref, s);
            int rc = mshell_execute(b.p, M_BOTH, &ret);
            mc::crash_context("C19.harness");
            check_dispatch("mshell_execute", s, ref, 0, rc);
        }
        {
            CS b(s);
            g_calls.clear();
            g_line = b.p;
            int ret = -7;
            ctx("mshell_tables_execute", ref, s);
            int rc = mshell_tables_execute(b.p, M_TABLES, &ret);
            mc::crash_context("C19.harness");
            check_dispatch("mshell_tables_execute", s, ref, 0, rc);
        }
    }
    else
    {
        {
            CS b(s);
            Exact out(4, 1);
            g_calls.clear();
            g_line = b.p;
            int ret = -7;
            ctx("rshell_execute", ref, s);
            int rc = rshell_execute(b.p, R_BOTH, &ret, 0, out.p, (int)out.n);
            mc::crash_context("C19.harness");
            check_dispatch("rshell_execute", s, ref, 0, rc);
        }
        {
            CS b(s);
            Exact out(4, 1);
            g_calls.clear();
            g_line = b.p;
            int ret = -7;
            ctx("rshell_tables_execute", ref, s);
            int rc = rshell_tables_execute(b.p, R_TABLES, &ret, out.p, (int)out.n);
            mc::crash_context("C19.harness");
            check_dispatch("rshell_tables_execute", s, ref, ref.which == 1 ? 1 : 0, rc);
        }
    }
}

// argvc_internal_split on a terminated line with exactly argcmax argv slots
static void check_argvc_split(const Str &s)
{
    std::vector<Run> runs = ref_runs(s, s.size(), is_ws4);
    static const int MAXS[4] = {0, 1, 2, 10};
    for (int k = 0; k < 4; k++)
    {
        int argcmax = MAXS[k];
        int want = (int)std::min<size_t>(runs.size(), (size_t)argcmax);
        if ((int)runs.size() > argcmax)
            mc::nontrivial();
        CS b(s);
        Exact av((size_t)argcmax * sizeof(char *), 1, 0);
        char **argv = (char **)av.p;
        mc::crash_context("C19.argvc_split.memory");
        int argc = w_argvc_split(b.p, argv, argcmax);
        mc::crash_context("C19.harness");
        mc::outcome(mc::fmt("argvc_split argc=%d", argc));
        if (argc > argcmax)
            mc::violation("C19.argvc_split.argc_exceeds_max", "split(%s, argcmax=%d) returned %d", esc(s).c_str(), argcmax, argc);
        else if (argc != want)
            mc::violation("C19.argvc_split.argc", "split(%s, argcmax=%d) returned %d, want %d", esc(s).c_str(), argcmax, argc, want);
        for (int i = 0; i < argc && i < want; i++)
        {
            long off = argv[i] - b.p;
            if (off != (long)runs[i].off)
            {
                mc::violation("C19.argvc_split.argv", "split(%s, argcmax=%d): argv[%d] at offset %ld, want %zu", esc(s).c_str(),
                              argcmax, i, off, runs[i].off);
                continue;
            }
            Str got(argv[i]), w = s.substr(runs[i].off, runs[i].len);
            if (got != w)
                mc::violation("C19.argvc_split.argv", "split(%s, argcmax=%d): argv[%d] = %s, want %s", esc(s).c_str(), argcmax, i,
                              esc(got).c_str(), esc(w).c_str());
        }
    }
    mc::more_cases(3);
}

MC_INIT
{
    mc::add_check("argvc_split", [] {
        Str s = enum_str(SIGMA, NSIG, line_len(), 2);
        mc::describe("argvc_internal_split line=%s argcmax in {0,1,2,10}", esc(s).c_str());
        check_argvc_split(s);
    });
    mc::add_check("mshell", [] {
        Str s = enum_str(SIGMA, NSIG, line_len(), 2);
        mc::describe("mshell_execute/mshell_tables_execute line=%s tables {a,ab}", esc(s).c_str());
        LineRef r = line_ref(s);
        if (r.which >= 0 || (r.runs.empty() && !s.empty()))
            mc::nontrivial(); // dispatches, or is a blank line
        check_shells(s, 0);
        mc::more_cases(1);
    });
    mc::add_check("rshell", [] {
        Str s = enum_str(SIGMA, NSIG, line_len(), 2);
        mc::describe("rshell_execute/rshell_tables_execute line=%s tables {a,ab}", esc(s).c_str());
        LineRef r = line_ref(s);
        if (r.which >= 0 || (r.runs.empty() && !s.empty()))
            mc::nontrivial();
        check_shells(s, 1);
        mc::more_cases(1);
    });

    // lines with 1..13 words: the 10-slot argv of the dispatchers and argcmax of the splitters
    mc::add_check("many_words", [] {
        static const char *FIRST[4] = {"a", "ab", "b", "abb"};
        static const char *SEP[3] = {" ", "\t", " \r\n "};
        static const char *LEAD[2] = {"", " "};
        static const char *TRAIL[3] = {"", " ", "\n"};
        int u = mc::choose(4 * 13 * 3 * 2 * 3);
        int f = u % 4, k = (u / 4) % 13, sp = (u / 52) % 3, ld = (u / 156) % 2, tr = (u / 312) % 3;
        Str s = LEAD[ld];
        s += FIRST[f];
        for (int i = 0; i < k; i++)
        {
            s += SEP[sp];
            s += (i % 2) ? "b" : "ab";
        }
        s += TRAIL[tr];
        mc::describe("%d-word line=%s through both splitters and the four dispatchers", k + 1, esc(s).c_str());
        if (k + 1 > SHELL_ARGCMAX)
            mc::nontrivial();
        check_argvc_split(s);
        check_shells(s, 0);
        check_shells(s, 1);
        // the same line, not terminated, through split_n
        std::vector<Run> runs = ref_runs(s, s.size(), is_ws4);
        static const int MAXS[4] = {0, 1, 2, 10};
        for (int m = 0; m < 4; m++)
        {
            int argcmax = MAXS[m];
            PL b(s);
            Exact av((size_t)argcmax * sizeof(char *), 1, 0);
            mc::crash_context("C19.argvc_split_n.memory");
            int argc = w_argvc_split_n(b.p, (int)b.n, (char **)av.p, argcmax);
            mc::crash_context("C19.harness");
            int want = (int)std::min<size_t>(runs.size(), (size_t)argcmax);
            if (argc > argcmax)
                mc::violation("C19.argvc_split_n.argc_exceeds_max", "split_n(%s, argcmax=%d) returned %d", esc(s).c_str(), argcmax,
                              argc);
            else if (argc != want)
                mc::violation("C19.argvc_split_n.argc", "split_n(%s, argcmax=%d) returned %d, want %d", esc(s).c_str(), argcmax,
                              argc, want);
        }
        mc::more_cases(11);
    });
}
