#!/bin/bash
# Two executables from the same harness sources:
#   asan  : clang, ASan redzones directly behind every exactly-sized input, locals pattern-initialised;
#           the header-only igris routines sit in c19_wrap.cpp compiled at -O0 (every source-level load happens)
#   guard : g++ -O2, no sanitizer, inputs flush against a PROT_NONE page (independent compiler and oracle)
set -e
. $MC/par.sh
H=$VERIF/harness/c19
INC="-I$REPO -I$MC -I$H"
A="-g -fsanitize=address -fno-omit-frame-pointer -ftrivial-auto-var-init=pattern $INC"
# the guard build doubles as the release / unsigned-char variant: -DNDEBUG, plain char unsigned (ARM, PowerPC, RISC-V)
G="-O2 -g -DC19_GUARD -DNDEBUG -funsigned-char -ftrivial-auto-var-init=pattern $INC"
LIBCXX="igris/util/string.cpp igris/string/replace.cpp"
LIBC="igris/string/replace_substrings.c igris/string/memmem.c igris/shell/mshell.c igris/shell/rshell.c"
AO=(); GO=()
for f in $LIBCXX; do
  o=$(basename $f .cpp)
  par clang++ -std=c++20 -O1 $A -c $REPO/$f -o $BUILD/a_$o.o; AO+=($BUILD/a_$o.o)
  par g++ -std=c++20 $G -c $REPO/$f -o $BUILD/g_$o.o; GO+=($BUILD/g_$o.o)
done
for f in $LIBC; do
  o=$(basename $f .c)
  par clang -O1 $A -c $REPO/$f -o $BUILD/a_$o.o; AO+=($BUILD/a_$o.o)
  par gcc $G -c $REPO/$f -o $BUILD/g_$o.o; GO+=($BUILD/g_$o.o)
done
par clang++ -std=c++20 -O0 $A -c $H/c19_wrap.cpp -o $BUILD/a_wrap.o; AO+=($BUILD/a_wrap.o)
par g++ -std=c++20 $G -c $H/c19_wrap.cpp -o $BUILD/g_wrap.o; GO+=($BUILD/g_wrap.o)
for t in text long shell path; do
  par clang++ -std=c++20 -O1 $A -c $H/c19_$t.cpp -o $BUILD/a_h_$t.o; AO+=($BUILD/a_h_$t.o)
  par g++ -std=c++20 $G -c $H/c19_$t.cpp -o $BUILD/g_h_$t.o; GO+=($BUILD/g_h_$t.o)
done
par clang++ -std=c++20 -O2 -c -I$MC $MC/mc.cpp -o $BUILD/mc.o
# re-entrancy run: the igris sources under ThreadSanitizer, two threads on the controlled scheduler (sched.cpp and
# mc.cpp stay uninstrumented: TSan then sees only what the code under test and the harness threads do)
T="-O1 -g -fsanitize=thread -fno-omit-frame-pointer $INC"
TO=()
for f in $LIBCXX; do o=$(basename $f .cpp); par g++ -std=c++20 $T -c $REPO/$f -o $BUILD/t_$o.o; TO+=($BUILD/t_$o.o); done
for f in $LIBC; do o=$(basename $f .c); par gcc $T -c $REPO/$f -o $BUILD/t_$o.o; TO+=($BUILD/t_$o.o); done
par g++ -std=c++20 $T -c $H/c19_wrap.cpp -o $BUILD/t_wrap.o; TO+=($BUILD/t_wrap.o)
par g++ -std=c++20 $T -c $H/c19_reentrancy.cpp -o $BUILD/t_h.o; TO+=($BUILD/t_h.o)
par g++ -std=c++20 -O2 -g -I$MC -c $MC/sched/sched.cpp -o $BUILD/sched.o
parwait
g++ -fsanitize=thread "${TO[@]}" $BUILD/sched.o $BUILD/mc.o -ldl -lpthread -o $BUILD/c19_tsan
clang++ -fsanitize=address "${AO[@]}" $BUILD/mc.o -o $BUILD/c19_asan
g++ "${GO[@]}" $BUILD/mc.o -o $BUILD/c19_guard
# the short guard run first: the driver hands the time it leaves to the ASan run
echo "guard $BUILD/c19_guard" > $BUILD/runs.txt
echo "reentrancy $BUILD/c19_tsan" >> $BUILD/runs.txt
echo "asan $BUILD/c19_asan" >> $BUILD/runs.txt
