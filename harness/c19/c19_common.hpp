// C19 — shared pieces: exactly-sized input buffers (ASan redzones or guard pages),
// the string enumerator, printable forms, and the boring reference definitions.
#pragma once
#include "mc.hpp"
#include <cstdio>
#include <cstdlib>
#include <cstring>
#include <string>
#include <vector>

#include "guard.hpp"

typedef std::string Str; // may contain NUL
typedef std::vector<Str> Toks;

// ---------------------------------------------------------------------------
// Exact: n usable bytes; p[n] (and, in the ASan build for n>=1, p[-1]) is not
// accessible.  n == 0 gives a pointer whose first byte is already inaccessible.
// `slot` keeps simultaneously live buffers of equal size apart in the guard build.
// ---------------------------------------------------------------------------
// Read-only mode (sub-checks for const inputs): while g_ro_mode is set every Exact gets a mapping of its own, flush
// against a PROT_NONE page, in BOTH builds; freeze() then makes it PROT_READ, so a routine that patches its const
// input (sentinel, temporary NUL) and restores it faults although a before/after comparison would see nothing.
static bool g_ro_mode = false;
struct RoMode
{
    RoMode() { g_ro_mode = true; }
    ~RoMode() { g_ro_mode = false; }
};
struct Exact
{
    char *p;
    size_t n;
    guard::Region *own = nullptr; // a mapping of its own (read-only mode; guard build: sizes beyond the pool)
    void use_own(int fill)
    {
        own = new guard::Region(n, true);
        p = (char *)own->p;
        if (n)
            memset(p, fill, n);
    }
    void freeze()
    {
        if (own)
            mprotect(own->base + 4096, own->maplen - 2 * 4096, PROT_READ);
    }
#ifdef C19_GUARD
    static guard::Region *region(size_t n, int slot)
    {
        static guard::Region *pool[8][160];
        if (slot >= 8)
            mc::harness_error("Exact: slot %d out of pool", slot);
        if (!pool[slot][n])
            pool[slot][n] = new guard::Region(n, true);
        return pool[slot][n];
    }
    Exact(size_t n_, int slot, int fill = 0x5A) : n(n_)
    {
        if (n >= 160 || g_ro_mode)
        {
            use_own(fill);
            return;
        }
        p = (char *)region(n, slot)->p;
        if (n)
            memset(p, fill, n);
    }
    ~Exact() { delete own; }
#else
    char *blk = nullptr;
    Exact(size_t n_, int /*slot*/, int fill = 0x5A) : n(n_)
    {
        if (g_ro_mode)
        {
            use_own(fill);
            return;
        }
        if (n)
        {
            blk = (char *)malloc(n);
            p = blk;
            memset(p, fill, n);
        }
        else
        {
            blk = (char *)malloc(8);
            p = blk + 8; // first byte of the right redzone
        }
    }
    ~Exact()
    {
        free(blk);
        delete own;
    }
#endif
    Exact(const Exact &) = delete;
    Exact &operator=(const Exact &) = delete;
};

// (pointer,length) input: the bytes of s, no terminator, nothing after
struct PL : Exact
{
    PL(const Str &s, int slot = 0) : Exact(s.size(), slot)
    {
        if (n)
            memcpy(p, s.data(), n);
    }
};
// C-string input: the bytes of s, one NUL, nothing after
struct CS : Exact
{
    CS(const Str &s, int slot = 0) : Exact(s.size() + 1, slot)
    {
        memcpy(p, s.data(), s.size());
        p[s.size()] = 0;
    }
};

// a C string that lives for the whole run in read-only memory, terminator = last accessible byte (both builds)
static inline const char *frozen_cstr(const Str &s)
{
    guard::Region *r = new guard::Region(s.size() + 1, true);
    memcpy(r->p, s.data(), s.size());
    r->p[s.size()] = 0;
    mprotect(r->base + 4096, r->maplen - 2 * 4096, PROT_READ);
    return (const char *)r->p;
}

// ---------------------------------------------------------------------------
// printable forms
// ---------------------------------------------------------------------------
static inline Str esc(const Str &s)
{
    Str r = "\"";
    for (unsigned char c : s)
    {
        if (c == '\\' || c == '"')
        {
            r.push_back('\\');
            r.push_back((char)c);
        }
        else if (c >= 0x20 && c < 0x7f)
            r.push_back((char)c);
        else if (c == '\n')
            r += "\\n";
        else if (c == '\t')
            r += "\\t";
        else if (c == '\r')
            r += "\\r";
        else if (c == 0)
            r += "\\0";
        else
            r += mc::fmt("\\x%02x", c);
    }
    r.push_back('"');
    return r;
}
static inline Str esc(const Toks &t)
{
    Str r = "[";
    for (size_t i = 0; i < t.size(); i++)
        r += (i ? "," : "") + esc(t[i]);
    return r + "]";
}

// bounded printable form for long inputs: head ... tail (len)
static inline Str escb(const Str &s)
{
    if (s.size() <= 48)
        return esc(s);
    return esc(s.substr(0, 20)) + "..." + esc(s.substr(s.size() - 12)) + mc::fmt("(len %zu)", s.size());
}
static inline Str escb(const Toks &t)
{
    Str r = mc::fmt("%zu tokens [", t.size());
    for (size_t i = 0; i < t.size() && i < 3; i++)
        r += (i ? "," : "") + escb(t[i]);
    if (t.size() > 3)
        r += ",...," + escb(t.back());
    return r + "]";
}

// ---------------------------------------------------------------------------
// long inputs: lengths around 2^7, 2^8 (and 2^16 in thorough) x a few patterns.
// A width-8 or width-16 counter/index somewhere in the code under test makes
// byte i and byte i-256 (i-65536) indistinguishable, so the filler has period
// 251 over 7 letters (251 and 7 are coprime to 256 and 65536).
// ---------------------------------------------------------------------------
static inline std::vector<size_t> long_lengths()
{
    std::vector<size_t> v = {127, 128, 255, 256, 257, 300, 1000};
    if (mc::thorough())
    {
        v.push_back(65535);
        v.push_back(65536);
        v.push_back(65537);
    }
    return v;
}
static const int LONG_NPOS = 7;
static inline size_t long_pos(int k, size_t L)
{ // {0,1,254,255,256,257,len-1}, folded into the string when it is shorter
    static const size_t P[6] = {0, 1, 254, 255, 256, 257};
    size_t p = k < 6 ? P[k] : L - 1;
    return L ? p % L : 0;
}
static inline char long_filler(size_t i) { return "abcdefg"[(i % 251) % 7]; }
enum
{
    LP_TOKEN,   // one long token (period-251 filler)
    LP_PERIOD,  // filler with a delimiter every 7th byte
    LP_DELIMS,  // delimiters only
    LP_ALT,     // "a" and delimiter alternating: len/2 one-letter tokens
    LP_CMD,     // 'c' repeated (a command name / path component when len == 300)
    LP_ONE_DELIM, // +k: filler 'a' with ONE delimiter at long_pos(k)
    LP_ONE_CHAR = LP_ONE_DELIM + LONG_NPOS, // +k: delimiters with ONE 'a' at long_pos(k)
    LP_COUNT = LP_ONE_CHAR + LONG_NPOS
};
static inline Str long_pattern(int v, size_t L, char delim, const char **name)
{
    Str s(L, 'a');
    static char nm[64];
    if (v == LP_TOKEN)
    {
        for (size_t i = 0; i < L; i++)
            s[i] = long_filler(i);
        *name = "one-token";
    }
    else if (v == LP_PERIOD)
    {
        for (size_t i = 0; i < L; i++)
            s[i] = (i % 7 == 6) ? delim : long_filler(i);
        *name = "period-251-delim-every-7";
    }
    else if (v == LP_DELIMS)
    {
        s.assign(L, delim);
        *name = "delimiters-only";
    }
    else if (v == LP_ALT)
    {
        for (size_t i = 0; i < L; i++)
            s[i] = (i % 2) ? delim : 'a';
        *name = "one-letter-tokens";
    }
    else if (v == LP_CMD)
    {
        s.assign(L, 'c');
        *name = "c-repeated";
    }
    else if (v < LP_ONE_CHAR)
    {
        size_t p = long_pos(v - LP_ONE_DELIM, L);
        s[p] = delim;
        snprintf(nm, sizeof nm, "one-delimiter-at-%zu", p);
        *name = nm;
    }
    else
    {
        size_t p = long_pos(v - LP_ONE_CHAR, L);
        s.assign(L, delim);
        s[p] = 'a';
        snprintf(nm, sizeof nm, "one-letter-at-%zu", p);
        *name = nm;
    }
    return s;
}
// first choice of every long sub-check: (length, pattern)
static inline Str long_input(char delim, const char *what, int *variant = nullptr)
{
    std::vector<size_t> Ls = long_lengths();
    int u = mc::choose((int)Ls.size() * LP_COUNT);
    size_t L = Ls[u / LP_COUNT];
    int v = u % LP_COUNT;
    const char *nm = "";
    Str s = long_pattern(v, L, delim, &nm);
    if (variant)
        *variant = v;
    mc::describe("%s: len=%zu pattern=%s delimiter=%s", what, L, nm, esc(Str(1, delim)).c_str());
    return s;
}

// ---------------------------------------------------------------------------
// enumerator: every string of length 0..Lmax over alpha[0..A).  The FIRST
// choice picks a prefix of length <= P (that is the sharding unit), the rest
// is length + symbols.  One leaf = one string.
// ---------------------------------------------------------------------------
static inline Str enum_str(const char *alpha, int A, int Lmax, int P)
{
    if (P > Lmax)
        P = Lmax;
    int total = 0, pw = 1;
    for (int l = 0; l <= P; l++, pw *= A)
        total += pw;
    int u = mc::choose(total);
    int len = 0;
    pw = 1;
    while (u >= pw)
    {
        u -= pw;
        pw *= A;
        len++;
    }
    Str s(len, '?');
    for (int i = len - 1; i >= 0; i--, u /= A)
        s[i] = alpha[u % A];
    if (len < P || Lmax == P)
        return s;
    int extra = mc::choose(Lmax - P + 1);
    for (int i = 0; i < extra; i++)
        s.push_back(alpha[mc::choose(A)]);
    return s;
}
// the k-th string (length-lexicographic) over alpha, for inner loops
static inline long count_upto(int A, int L)
{
    long t = 0, pw = 1;
    for (int l = 0; l <= L; l++, pw *= A)
        t += pw;
    return t;
}
static inline Str nth_str(const char *alpha, int A, long k)
{
    long pw = 1;
    int len = 0;
    while (k >= pw)
    {
        k -= pw;
        pw *= A;
        len++;
    }
    Str s(len, '?');
    for (int i = len - 1; i >= 0; i--, k /= A)
        s[i] = alpha[k % A];
    return s;
}

// ---------------------------------------------------------------------------
// references
// ---------------------------------------------------------------------------
struct Run
{
    size_t off, len;
};
// maximal runs of bytes for which isdelim is false, over s[0..n)
template <class F> static inline std::vector<Run> ref_runs(const Str &s, size_t n, F isdelim)
{
    std::vector<Run> r;
    size_t i = 0;
    while (i < n)
    {
        if (isdelim(s[i]))
        {
            i++;
            continue;
        }
        size_t b = i;
        while (i < n && !isdelim(s[i]))
            i++;
        r.push_back({b, i - b});
    }
    return r;
}
template <class F> static inline Toks ref_split(const Str &s, F isdelim)
{
    Toks t;
    for (auto &r : ref_runs(s, s.size(), isdelim))
        t.push_back(s.substr(r.off, r.len));
    return t;
}
static inline bool is_ws4(char c) { return c == ' ' || c == '\t' || c == '\n' || c == '\r'; }

static inline Str ref_trim(const Str &s)
{
    size_t b = 0, e = s.size();
    while (b < e && is_ws4(s[b]))
        b++;
    while (e > b && is_ws4(s[e - 1]))
        e--;
    return s.substr(b, e - b);
}
// left-to-right, non-overlapping; an empty pattern replaces nothing
static inline Str ref_replace(const Str &in, const Str &sub, const Str &rep)
{
    if (sub.empty())
        return in;
    Str out;
    size_t i = 0;
    while (i < in.size())
    {
        if (i + sub.size() <= in.size() && in.compare(i, sub.size(), sub) == 0)
        {
            out += rep;
            i += sub.size();
        }
        else
            out.push_back(in[i++]);
    }
    return out;
}
// first occurrence; igris defines "nothing to compare" (either side empty) as no occurrence
static inline long ref_memmem(const Str &h, const Str &nd)
{
    if (h.empty() || nd.empty() || nd.size() > h.size())
        return -1;
    for (size_t i = 0; i + nd.size() <= h.size(); i++)
        if (memcmp(h.data() + i, nd.data(), nd.size()) == 0)
            return (long)i;
    return -1;
}
// "split by space, but not in quotes" (string.cpp): a token that STARTS with ' or "
// runs to the matching quote (or the end) and loses the quotes.
static inline Toks ref_cmdargs(const Str &s)
{
    Toks t;
    size_t i = 0, n = s.size();
    for (;;)
    {
        while (i < n && s[i] == ' ')
            i++;
        if (i == n)
            break;
        if (s[i] == '"' || s[i] == '\'')
        {
            char q = s[i++];
            size_t b = i;
            while (i < n && s[i] != q)
                i++;
            t.push_back(s.substr(b, i - b));
            if (i < n)
                i++;
        }
        else
        {
            size_t b = i;
            while (i < n && s[i] != ' ')
                i++;
            t.push_back(s.substr(b, i - b));
        }
    }
    return t;
}
// creader_skip: number of leading bytes that are members of `symbols`; the terminator of `symbols` is not a member
static inline long ref_skip(const Str &s, const char *symbols)
{
    size_t i = 0;
    while (i < s.size() && s[i] != '\0' && strchr(symbols, s[i]) != nullptr)
        i++;
    return (long)i;
}
