// C19 re-entrancy — every routine of the property is a function of its arguments: two calls running in two threads,
// each on private buffers, share nothing.
//
// Shape T on /verif/mc/sched (template: harness/c17/c17_reentrancy.cpp): two real threads, one running at a time,
// every interleaving of their scheduling points (start, the yield between the two calls each thread makes, end) up
// to preemption bound 2.  The routines contain no synchronisation, so the scheduler never adds a happens-before edge
// between the two threads' calls: under ThreadSanitizer ANY memory both calls touch with at least one write (a
// function-local static cache, a "last hit" pointer, a lazily built table) is a reported race in every schedule.
// Each worker process is forked from an image in which none of the routines has run yet.  Every result is also
// compared with the reference definitions.
#include "c19_common.hpp"
#include "c19_wrap.hpp"
#include "sched/sched.hpp"
#include <atomic>
#include <igris/buffer.h>
#include <igris/shell/mshell.h>
#include <igris/shell/rshell.h>
#include <igris/util/string.h>

enum
{
    R_SPLIT_CHAR,
    R_SPLIT_DELIMS,
    R_JOIN,
    R_JOIN_ITER,
    R_TRIM,
    R_CMDARGS,
    R_REPLACE,
    R_REPLACE_SUBSTRINGS,
    R_MEMMEM,
    R_ARGVC_SPLIT,
    R_ARGVC_SPLIT_N,
    R_MSHELL,
    R_MSHELL_TABLES,
    R_RSHELL,
    R_RSHELL_TABLES,
    R_PATH_NEXT,
    R_PATH_ITERATE,
    R_PATH_COMPARE,
    R_PATH_REMOVE_PREFIX,
    R_CREADER,
    NR
};
static const char *rname[NR] = {"split_char", "split_delims", "join", "join_iter", "trim", "split_cmdargs", "replace",
                                "replace_substrings", "memmem", "argvc_split", "argvc_split_n", "mshell_execute",
                                "mshell_tables_execute", "rshell_execute", "rshell_tables_execute", "path_next", "path_iterate",
                                "path_compare_node", "path_remove_prefix", "creader"};

// handlers record into thread-private storage (a shared recorder would be a race of the harness, not of igris)
static thread_local int t_which = -1, t_argc = -1;
static thread_local char t_arg0[16];
static void rec(int which, int argc, char **argv)
{
    t_which = which;
    t_argc = argc;
    t_arg0[0] = 0;
    if (argc > 0)
        strncpy(t_arg0, argv[0], sizeof t_arg0 - 1);
}
static int m_a(int c, char **v)
{
    rec(0, c, v);
    return 40;
}
static int m_ab(int c, char **v)
{
    rec(1, c, v);
    return 41;
}
static int r_a(int c, char **v, char *, int)
{
    rec(0, c, v);
    return 40;
}
static int r_ab(int c, char **v, char *, int)
{
    rec(1, c, v);
    return 41;
}
static const struct mshell_command M_BOTH[] = {{"a", m_a, nullptr}, {"ab", m_ab, nullptr}, {nullptr, nullptr, nullptr}};
static const struct mshell_command M_T1[] = {{"a", m_a, nullptr}, {nullptr, nullptr, nullptr}};
static const struct mshell_command M_T2[] = {{"ab", m_ab, nullptr}, {nullptr, nullptr, nullptr}};
static const struct mshell_command *const M_TABLES[] = {M_T1, M_T2, nullptr};
static const struct rshell_command R_BOTH[] = {{"a", r_a, nullptr}, {"ab", r_ab, nullptr}, {nullptr, nullptr, nullptr}};
static const struct rshell_command R_T1[] = {{"a", r_a, nullptr}, {nullptr, nullptr, nullptr}};
static const struct rshell_command R_T2[] = {{"ab", r_ab, nullptr}, {nullptr, nullptr, nullptr}};
static const struct rshell_command_table R_TABLES[] = {{R_T1, 0}, {R_T2, 0}, {nullptr, 0}};

// exactly sized private copy (plain malloc: no shared pool) -- or, for CONST inputs in the shared variant, ONE copy
// that both threads read: a routine that writes into its const input (even if it restores it) then races
struct Priv
{
    char *p;
    size_t n;
    bool owned = true;
    Priv(const Str &s, bool terminated, char *shared = nullptr) : n(s.size())
    {
        if (shared)
        {
            p = shared;
            owned = false;
            return;
        }
        p = (char *)malloc(n + (terminated ? 1 : 0) + ((n == 0 && !terminated) ? 1 : 0));
        if (n)
            memcpy(p, s.data(), n);
        if (terminated)
            p[n] = 0;
    }
    ~Priv()
    {
        if (owned)
            free(p);
    }
};
static const char *TEXT[4] = {"a b", " ab  b ", "\"a b\" a", "ab"};
static const char *PATHS[4] = {"/a/b", "a/./b", "//", "ab/a"};
static char *g_text[4], *g_path[4]; // the shared const inputs (text: not terminated; paths: terminated)
static thread_local bool t_shared = false;
static char *sh_text(int v) { return t_shared ? g_text[v & 3] : nullptr; }
static char *sh_path(int v) { return t_shared ? g_path[v & 3] : nullptr; }

// one call of routine r on input number v (0..3); returns "" or what was wrong.  No mc:: calls in here.
static Str run_routine(int r, int v)
{
    Str s = TEXT[v & 3], path = PATHS[v & 3];
    auto is_sp = [](char c) { return c == ' '; };
    switch (r)
    {
    case R_SPLIT_CHAR:
    {
        Priv b(s, false, sh_text(v));
        return igris::split(igris::buffer((const void *)b.p, b.n), ' ') == ref_split(s, is_sp) ? "" : "wrong tokens";
    }
    case R_SPLIT_DELIMS:
    {
        Priv b(s, false, sh_text(v)), d(" \"", true);
        return igris::split(igris::buffer((const void *)b.p, b.n), (const char *)d.p) ==
                       ref_split(s, [](char c) { return c == ' ' || c == '"'; })
                   ? ""
                   : "wrong tokens";
    }
    case R_JOIN:
    {
        Toks t = ref_split(s, is_sp);
        return ref_split(igris::join(t, ' '), is_sp) == t ? "" : "join is not the inverse";
    }
    case R_JOIN_ITER:
    {
        Toks t = ref_split(s, is_sp);
        return ref_split(w_join_iter(t, " ", "", ""), is_sp) == t ? "" : "join is not the inverse";
    }
    case R_TRIM:
    {
        Priv b(s, false, sh_text(v));
        return w_trim(b.p, b.n) == ref_trim(s) ? "" : "wrong trim";
    }
    case R_CMDARGS:
    {
        Priv b(s, false, sh_text(v));
        return igris::split_cmdargs(igris::buffer((const void *)b.p, b.n)) == ref_cmdargs(s) ? "" : "wrong tokens";
    }
    case R_REPLACE:
        return igris::replace(s, "a", "bb") == ref_replace(s, "a", "bb") ? "" : "wrong replacement";
    case R_REPLACE_SUBSTRINGS:
    {
        Str want = ref_replace(s, "a", "bb");
        Priv in(s, false), out(Str(want.size() + 1, '?'), false);
        replace_substrings(out.p, out.n, in.p, in.n, "a", 1, "bb", 2);
        return memcmp(out.p, want.c_str(), want.size() + 1) == 0 ? "" : "wrong replacement";
    }
    case R_MEMMEM:
    {
        Priv h(s, false, sh_text(v));
        char *g = (char *)igris_memmem(h.p, h.n, "b", 1);
        return (g ? (long)(g - h.p) : -1) == ref_memmem(s, "b") ? "" : "wrong position";
    }
    case R_ARGVC_SPLIT:
    case R_ARGVC_SPLIT_N:
    {
        std::vector<Run> runs = ref_runs(s, s.size(), is_ws4);
        Priv b(s, r == R_ARGVC_SPLIT);
        char *argv[10];
        int argc = r == R_ARGVC_SPLIT ? w_argvc_split(b.p, argv, 10) : w_argvc_split_n(b.p, (int)b.n, argv, 10);
        if (argc != (int)runs.size())
            return "wrong argc";
        for (int i = 0; i < argc; i++)
            if (argv[i] - b.p != (long)runs[i].off)
                return "wrong argv";
        return "";
    }
    case R_MSHELL:
    case R_MSHELL_TABLES:
    case R_RSHELL:
    case R_RSHELL_TABLES:
    {
        Toks t = ref_split(s, is_ws4);
        int want = t.empty() ? -1 : t[0] == "a" ? 0 : t[0] == "ab" ? 1 : -1;
        Priv b(s, true);
        char out[4];
        int ret = -7;
        t_which = -1;
        if (r == R_MSHELL)
            mshell_execute(b.p, M_BOTH, &ret);
        else if (r == R_MSHELL_TABLES)
            mshell_tables_execute(b.p, M_TABLES, &ret);
        else if (r == R_RSHELL)
            rshell_execute(b.p, R_BOTH, &ret, 0, out, 4);
        else
            rshell_tables_execute(b.p, R_TABLES, &ret, out, 4);
        if (t_which != want)
            return "wrong handler";
        if (want >= 0 && (t_argc != (int)t.size() || t[0] != t_arg0))
            return "wrong argv";
        return "";
    }
    case R_PATH_NEXT:
    {
        Priv b(path, true, sh_path(v));
        unsigned len = 0;
        const char *g = w_path_next(b.p, &len);
        size_t i = 0; // first node: skip '/' and "." components
        while (i < path.size() && (path[i] == '/' || (path[i] == '.' && (i + 1 == path.size() || path[i + 1] == '/'))))
            i++;
        if (i == path.size())
            return g ? "wrong node" : "";
        size_t e = std::min(path.find('/', i), path.size());
        return (g && (size_t)(g - b.p) == i && len == e - i) ? "" : "wrong node";
    }
    case R_PATH_ITERATE:
    {
        Priv b(path, true, sh_path(v));
        const char *g = w_path_iterate(b.p);
        size_t q = 0;
        if (path[0] != '/')
            q = std::min(path.find('/'), path.size());
        while (q < path.size() && (path[q] == '/' || (path[q] == '.' && (q + 1 == path.size() || path[q + 1] == '/'))))
            q++;
        return (g && (size_t)(g - b.p) == q) ? "" : "wrong node";
    }
    case R_PATH_COMPARE:
    {
        Str o = PATHS[(v + 1) & 3];
        Priv a(path, true, sh_path(v)), b(o, true, sh_path(v + 1));
        Str x = path.substr(0, std::min(path.find('/'), path.size())), y = o.substr(0, std::min(o.find('/'), o.size()));
        int want = x < y ? -1 : x > y ? 1 : 0;
        return w_path_compare_node(a.p, b.p) == want ? "" : "wrong order";
    }
    case R_PATH_REMOVE_PREFIX:
    {
        static const char *PFX[4] = {"/a", "a", "/", "ab"};
        static const long WANT[4] = {3, 4, 2, 3}; // "/a/b"-"/a" -> "b"; "a/./b"-"a" -> "b"; "//"-"/" -> ""; "ab/a"-"ab" -> "a"
        Priv a(path, true, sh_path(v)), b(PFX[v & 3], true);
        const char *g = w_path_remove_prefix(a.p, b.p);
        return (g && g - a.p == WANT[v & 3]) ? "" : "wrong remainder";
    }
    default:
    {
        Str l = s + "\n" + s;
        Priv b(l, false);
        void *rd = w_creader_new(b.p, b.n);
        long skipped = w_creader_skip(rd, " ");
        const char *tok = nullptr;
        long len = w_creader_readline(rd, &tok);
        w_creader_del(rd);
        if (skipped != ref_skip(l, " "))
            return "wrong skip";
        return (tok >= b.p && len >= 0 && tok + len <= b.p + b.n) ? "" : "line outside the buffer";
    }
    }
}

struct Side
{
    int routine, v[2];
    bool shared = false;
    Str err[2];
    std::atomic<int> done{0};
    void body()
    {
        t_shared = shared;
        err[0] = run_routine(routine, v[0]);
        sched::yield(); // the other thread may run a whole call between ours
        err[1] = run_routine(routine, v[1]);
        done.store(1, std::memory_order_release);
    }
};

MC_INIT
{
    mc::add_check("reentrancy.two_threads", [] {
        // quick: every routine against itself, and all pairs inside the families that share code (argv splitters and
        // dispatchers; replace, replace_substrings and memmem).  thorough: all NR x NR pairs.
        std::vector<std::pair<int, int>> pairs;
        for (int a = 0; a < NR; a++)
            for (int b = 0; b < NR; b++)
            {
                bool shell = a >= R_ARGVC_SPLIT && a <= R_RSHELL_TABLES && b >= R_ARGVC_SPLIT && b <= R_RSHELL_TABLES;
                bool repl = a >= R_REPLACE && a <= R_MEMMEM && b >= R_REPLACE && b <= R_MEMMEM;
                if (mc::thorough() || a == b || shell || repl)
                    pairs.push_back({a, b});
            }
        int first = mc::choose((int)pairs.size() * 4);
        mc::request_restart(); // lazily built / remembered state survives in the process: fresh worker per case
        int ra = pairs[first / 4].first, rb = pairs[first / 4].second, var = first % 2;
        bool shared = (first / 2) % 2; // both threads read the SAME const inputs (same input numbers)
        if (!g_text[0])
            for (int i = 0; i < 4; i++)
            {
                size_t n = strlen(TEXT[i]);
                g_text[i] = (char *)malloc(n);
                memcpy(g_text[i], TEXT[i], n);
                g_path[i] = strdup(PATHS[i]);
            }
        Side *S[2] = {new Side, new Side}; // deliberately leaked if the execution does not finish
        S[0]->routine = ra;
        S[1]->routine = rb;
        S[0]->v[0] = var ? 2 : 0;
        S[0]->v[1] = var ? 3 : 1;
        S[1]->v[0] = shared ? S[0]->v[0] : var ? 1 : 3;
        S[1]->v[1] = shared ? S[0]->v[1] : var ? 0 : 2;
        S[0]->shared = S[1]->shared = shared;
        Str who = mc::fmt("thread A: %s x2 (inputs %d,%d), thread B: %s x2 (inputs %d,%d)%s", rname[ra], S[0]->v[0], S[0]->v[1],
                          rname[rb], S[1]->v[0], S[1]->v[1], shared ? ", const inputs shared" : "");
        mc::crash_context("C19.reentrancy.%s+%s.%s", rname[ra], rname[rb], shared ? "shared_const_input" : "shared_state");
        mc::describe("%s (the execution died before it completed)", who.c_str());
        sched::Options o;
        o.preemption_bound = 2;
        sched::begin(o);
        sched::spawn([S] { S[0]->body(); }, "A");
        sched::spawn([S] { S[1]->body(); }, "B");
        sched::Result r = sched::run();
        mc::describe("%s; preemptions=%d steps=%d: %s", who.c_str(), r.preemptions, r.steps, r.trace.c_str());
        mc::nontrivial();
        if (r.deadlock || r.horizon_hit || !S[0]->done.load(std::memory_order_acquire) || !S[1]->done.load(std::memory_order_acquire))
        {
            mc::violation("C19.reentrancy.did_not_finish", "%s: %s", who.c_str(), r.trace.c_str());
            return;
        }
        mc::crash_context("C19.harness");
        for (int t = 0; t < 2; t++)
            for (int k = 0; k < 2; k++)
                if (!S[t]->err[k].empty())
                    mc::violation(mc::fmt("C19.reentrancy.%s.value", rname[S[t]->routine]), "%s: thread %c call %d: %s", who.c_str(),
                                  'A' + t, k, S[t]->err[k].c_str());
        mc::outcome(mc::fmt("preemptions=%d", r.preemptions));
        delete S[0];
        delete S[1];
    });
}
MC_MAIN
