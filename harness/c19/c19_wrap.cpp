#include "c19_wrap.hpp"
#include <igris/buffer.h>
#include <igris/creader.h>
#include <igris/datastruct/argvc.h>
#include <igris/util/pathops.h>
#include <igris/util/string.h>

std::string w_trim(const char *p, size_t n) { return igris::trim(igris::buffer(p, n)); }
std::string w_trim_s(const std::string &s) { return igris::trim(s); }
std::string w_trim_sv(std::string_view s) { return igris::trim(s); }
std::string w_join_iter(const std::vector<std::string> &v, const char *delim, const char *prefix, const char *postfix)
{
    return igris::join(v.begin(), v.end(), delim, prefix, postfix);
}
int w_argvc_split(char *data, char **argv, int argcmax) { return argvc_internal_split(data, argv, argcmax); }
int w_argvc_split_n(char *data, int maxlen, char **argv, int argcmax)
{
    return argvc_internal_split_n(data, maxlen, argv, argcmax);
}
const char *w_path_next(const char *path, unsigned int *plen) { return path_next(path, plen); }
const char *w_path_iterate(const char *path) { return path_iterate(path); }
int w_path_compare_node(const char *a, const char *b) { return path_compare_node(a, b); }
const char *w_path_remove_prefix(const char *path, const char *prefix) { return path_remove_prefix(path, prefix); }

void *w_creader_new(const char *p, size_t n)
{
    struct creader *r = new creader;
    creader_init(r, p, n);
    return r;
}
void w_creader_del(void *r) { delete (struct creader *)r; }
long w_creader_readline(void *r, const char **token) { return (long)creader_readline((struct creader *)r, token); }
int w_creader_skip(void *r, const char *symbols) { return creader_skip((struct creader *)r, symbols); }
int w_creader_skipws(void *r) { return creader_skipws((struct creader *)r); }
int w_creader_end(void *r) { return creader_end((struct creader *)r); }
long w_creader_curpos(void *r) { return (long)creader_curpos((struct creader *)r); }
