// C19 — (pointer,length) text routines: split(char), split(delims), join, trim, split_cmdargs,
// argvc_internal_split_n, creader, igris_memmem, replace, replace_substrings.
// Shape I: every string of length 0..L over the alphabet below, each in an exactly-sized,
// NON-terminated buffer (ASan redzone / guard page directly behind the last byte), each
// result compared with the reference definitions in c19_common.hpp.
#include "c19_common.hpp"
#include "c19_wrap.hpp"
#include "c19_skip.hpp"
#include <algorithm>
#include <igris/buffer.h>
#include <igris/util/string.h>

// space a b " ' / . NUL tab LF (+ CR for the routines whose white-space set contains it)
static const char SIGMA[] = {' ', 'a', 'b', '"', '\'', '/', '.', '\0', '\t', '\n', '\r'};
static const int NSIG = 10, NSIG_CR = 11;
#ifdef C19_GUARD
static int text_len() { return mc::thorough() ? 6 : 5; } // the guard-page build repeats the space one length shorter
#else
static int text_len() { return mc::thorough() ? 7 : 6; }
#endif
static Str text_input(const char *what, int nsig = NSIG)
{
    Str s = enum_str(SIGMA, nsig, text_len(), 2);
    mc::describe("%s input=%s (len %zu, not terminated)", what, esc(s).c_str(), s.size());
    return s;
}
static const char *small_outcome(const char *what, long n)
{ // cached "what=n" strings: the outcome label is built once, not per case
    static std::string cache[8][24];
    static const char *names[8];
    int w = 0;
    while (w < 8 && names[w] && names[w] != what)
        w++;
    if (w == 8 || n < -1 || n > 21)
        return "other";
    names[w] = what;
    std::string &c = cache[w][n + 1];
    if (c.empty())
        c = mc::fmt("%s=%ld", what, n);
    return c.c_str();
}
static bool has(const Str &s, char c) { return s.find(c) != Str::npos; }

MC_INIT
{
    // ---------------------------------------------------------------- split(char) + join
    mc::add_check("split_char_join", [] {
        Str s = text_input("split(char)/join");
        static const char D[3] = {' ', '/', '\0'};
        for (int k = 0; k < 3; k++)
        {
            char d = D[k];
            Toks want = ref_split(s, [d](char c) { return c == d; });
            if (want.size() >= 2 || (want.size() == 1 && want[0].size() != s.size()))
                mc::nontrivial(); // at least one delimiter next to a token
            {
                PL b(s);
                mc::crash_context("C19.split_char.memory");
                Toks got = igris::split(igris::buffer((const void *)b.p, b.n), d);
                mc::crash_context("C19.harness");
                mc::outcome(small_outcome("split_char ntok", (long)got.size()));
                if (got != want)
                    mc::violation("C19.split_char.value", "split(%s, %s) = %s, maximal runs are %s", esc(s).c_str(),
                                  esc(Str(1, d)).c_str(), esc(got).c_str(), esc(want).c_str());
            }
            // join is the inverse of split on such token lists.  join(T) is never longer than s, so the real
            // split of join(T) is itself one of the enumerated cases; here the definition of split is applied to it.
            mc::crash_context("C19.join.memory");
            Str j = igris::join(want, d);
            mc::crash_context("C19.harness");
            Toks back = ref_split(j, [d](char c) { return c == d; });
            if (back != want)
                mc::violation("C19.join.inverse", "join(%s, %s) = %s which splits into %s", esc(want).c_str(),
                              esc(Str(1, d)).c_str(), esc(j).c_str(), esc(back).c_str());
            if (d != 0)
            {
                CS ds(Str(1, d), 2), e1("", 3), e2("", 4);
                mc::crash_context(want.empty() ? "C19.join_iter.memory.empty_list" : "C19.join_iter.memory");
                Str ji = w_join_iter(want, ds.p, e1.p, e2.p);
                mc::crash_context("C19.harness");
                Toks bi = ref_split(ji, [d](char c) { return c == d; });
                if (bi != want)
                    mc::violation("C19.join_iter.inverse", "join(begin,end,%s,\"\",\"\") of %s = %s which splits into %s",
                                  esc(Str(1, d)).c_str(), esc(want).c_str(), esc(ji).c_str(), esc(bi).c_str());
            }
        }
        mc::more_cases(2);
    });

    // ---------------------------------------------------------------- split(delims)
    mc::add_check("split_delims", [] {
        Str s = text_input("split(delims)");
        // "" = the empty set: no byte is a delimiter, a non-empty input is one token.  Every set is handed over in
        // an exactly sized copy (CS), so a look behind its terminator is a report.
        static const char *DS[5] = {" ", " \t\n", "/.", "ab", ""};
        for (int k = 0; k < 5; k++)
        {
            const char *ds = DS[k];
            auto isd = [ds](char c) { return c != 0 && strchr(ds, c) != nullptr; };
            Toks want = ref_split(s, isd);
            if (want.size() >= 2 || (want.size() == 1 && want[0].size() != s.size()) || has(s, '\0'))
                mc::nontrivial();
            PL b(s);
            CS dl(ds, 1);
            mc::crash_context("C19.split_delims.memory");
            Toks got = igris::split(igris::buffer((const void *)b.p, b.n), (const char *)dl.p);
            mc::crash_context("C19.harness");
            mc::outcome(small_outcome("split_delims ntok", (long)got.size()));
            if (got != want)
                mc::violation(has(s, '\0') ? "C19.split_delims.value.nul_in_input" : "C19.split_delims.value",
                              "split(%s, %s) = %s, maximal runs are %s", esc(s).c_str(), esc(ds).c_str(), esc(got).c_str(),
                              esc(want).c_str());
        }
        mc::more_cases(4);
    });

    // ---------------------------------------------------------------- trim
    mc::add_check("trim", [] {
        Str s = text_input("trim", NSIG_CR);
        Str want = ref_trim(s);
        if (want.size() != s.size())
            mc::nontrivial();
        PL b(s);
        mc::crash_context("C19.trim.memory");
        Str got = w_trim(b.p, b.n);
        mc::crash_context("C19.harness");
        mc::outcome(small_outcome("trim removed", (long)s.size() - (long)got.size()));
        if (got != want)
            mc::violation("C19.trim.value", "trim(%s) = %s, want %s", esc(s).c_str(), esc(got).c_str(), esc(want).c_str());
    });

    // ---------------------------------------------------------------- split_cmdargs
    mc::add_check("split_cmdargs", [] {
        Str s = text_input("split_cmdargs");
        Toks want = ref_cmdargs(s);
        if (has(s, '"') || has(s, '\'') || want.size() >= 2)
            mc::nontrivial();
        PL b(s);
        mc::crash_context("C19.split_cmdargs.memory");
        Toks got = igris::split_cmdargs(igris::buffer((const void *)b.p, b.n));
        mc::crash_context("C19.harness");
        mc::outcome(small_outcome("cmdargs ntok", (long)got.size()));
        if (got != want)
            mc::violation("C19.split_cmdargs.value", "split_cmdargs(%s) = %s, want %s", esc(s).c_str(), esc(got).c_str(),
                          esc(want).c_str());
    });

    // ---------------------------------------------------------------- argvc_internal_split_n
    mc::add_check("argvc_split_n", [] {
        Str s = text_input("argvc_internal_split_n", NSIG_CR);
        size_t eff = std::min(s.find('\0'), s.size()); // the string ends at the first NUL or at maxlen
        std::vector<Run> runs = ref_runs(s, eff, is_ws4);
        static const int MAXS[4] = {0, 1, 2, 10};
        for (int k = 0; k < 4; k++)
        {
            int argcmax = MAXS[k];
            int want = (int)std::min<size_t>(runs.size(), (size_t)argcmax);
            if ((int)runs.size() > argcmax || (!runs.empty() && runs.back().off + runs.back().len == s.size()))
                mc::nontrivial(); // more words than slots, or the last word touches the end of the buffer
            PL b(s);
            Exact av((size_t)argcmax * sizeof(char *), 1, 0);
            char **argv = (char **)av.p;
            mc::crash_context("C19.argvc_split_n.memory");
            int argc = w_argvc_split_n(b.p, (int)b.n, argv, argcmax);
            mc::crash_context("C19.harness");
            mc::outcome(small_outcome("split_n argc", argc));
            if (argc > argcmax)
                mc::violation("C19.argvc_split_n.argc_exceeds_max", "split_n(%s, argcmax=%d) returned %d", esc(s).c_str(),
                              argcmax, argc);
            else if (argc != want)
                mc::violation("C19.argvc_split_n.argc", "split_n(%s, argcmax=%d) returned %d, want %d", esc(s).c_str(),
                              argcmax, argc, want);
            for (int i = 0; i < argc && i < want; i++)
            {
                long off = argv[i] - b.p;
                const Run &r = runs[i];
                if (off != (long)r.off)
                    mc::violation("C19.argvc_split_n.argv", "split_n(%s, argcmax=%d): argv[%d] at offset %ld, want %zu",
                                  esc(s).c_str(), argcmax, i, off, r.off);
                else if (memcmp(b.p + r.off, s.data() + r.off, r.len) != 0)
                    mc::violation("C19.argvc_split_n.argv", "split_n(%s, argcmax=%d): bytes of argv[%d] changed",
                                  esc(s).c_str(), argcmax, i);
                else if (r.off + r.len < b.n && b.p[r.off + r.len] != 0)
                    mc::violation("C19.argvc_split_n.unterminated", "split_n(%s, argcmax=%d): argv[%d] not terminated",
                                  esc(s).c_str(), argcmax, i);
            }
        }
        mc::more_cases(3);
    });

    // ---------------------------------------------------------------- creader: readline memory and extent only; skip/skipws functional
    mc::add_check("creader", [] {
        Str s = text_input("creader_readline/skip", NSIG_CR);
        if (has(s, '\n') || has(s, '\0'))
            mc::nontrivial();
        {
            PL b(s);
            void *r = w_creader_new(b.p, b.n);
            int lines = 0;
            for (size_t it = 0; it < s.size() + 3; it++)
            {
                long before = w_creader_curpos(r);
                const char *tok = nullptr;
                mc::crash_context("C19.creader_readline.memory");
                long len = w_creader_readline(r, &tok);
                mc::crash_context("C19.harness");
                long cur = w_creader_curpos(r);
                if (cur < 0 || cur > (long)b.n)
                    mc::violation("C19.creader_readline.extent", "%s: cursor at %ld outside [0,%zu]", esc(s).c_str(), cur, b.n);
                if (len < -1 || tok < b.p || (len >= 0 && tok + len > b.p + b.n))
                    mc::violation("C19.creader_readline.extent", "%s: line [%ld,+%ld) outside the %zu byte buffer",
                                  esc(s).c_str(), (long)(tok - b.p), len, b.n);
                if (len < 0 || cur == before)
                    break;
                lines++;
            }
            mc::outcome(small_outcome("creader lines", lines));
            w_creader_del(r);
        }
        check_creader_skip(s, "", [](const Str &x) { return esc(x); });
    });

    // ---------------------------------------------------------------- igris_memmem: all (haystack, needle) pairs
    mc::add_check("memmem_pairs", [] {
        static const char AB0[3] = {'a', 'b', '\0'};
        int lh = mc::thorough() ? 9 : 7, ln = mc::thorough() ? 5 : 4;
        Str h = enum_str(AB0, 3, lh, 4);
        long nn = count_upto(3, ln);
        mc::describe("igris_memmem haystack=%s x all %ld needles of length <=%d over {a,b,NUL}", esc(h).c_str(), nn, ln);
        long found = 0;
        for (long k = 0; k < nn; k++)
        {
            Str nd = nth_str(AB0, 3, k);
            PL hb(h, 0), nb(nd, 1);
            mc::crash_context("C19.memmem.memory");
            char *g = (char *)igris_memmem(hb.p, hb.n, nb.p, nb.n);
            mc::crash_context("C19.harness");
            long got = g ? (long)(g - hb.p) : -1, want = ref_memmem(h, nd);
            mc::outcome(mc::fmt("memmem at %ld", got));
            if (want > 0)
                found++; // an occurrence that is not at the very start
            if (got != want)
                mc::violation("C19.memmem.value", "igris_memmem(%s, %s) = %ld, first occurrence is %ld", esc(h).c_str(),
                              esc(nd).c_str(), got, want);
        }
        if (found)
            mc::nontrivial();
        mc::more_cases((uint64_t)nn - 1, (uint64_t)(found ? found - 1 : 0));
    });

    // ---------------------------------------------------------------- replace / replace_substrings
    mc::add_check("replace", [] {
        static const char AB0[3] = {'a', 'b', '\0'};
        int ls = mc::thorough() ? 7 : 6;
        Str src = enum_str(AB0, 3, ls, 4);
        long nsub = count_upto(3, 3);
        const Str REPS[7] = {Str(""), Str("a"), Str("b"), Str("ab"), Str("\0", 1), Str("aba"), Str("ba")};
        mc::describe("replace/replace_substrings src=%s x all %ld patterns of length <=3 x 7 replacements", esc(src).c_str(),
                     nsub);
        long nt = 0, n = 0;
        for (long k = 0; k < nsub; k++)
        {
            Str sub = nth_str(AB0, 3, k);
            for (int ri = 0; ri < 7; ri++)
            {
                const Str &rep = REPS[ri];
                Str want = ref_replace(src, sub, rep);
                bool occurs = !sub.empty() && ref_memmem(src, sub) >= 0;
                n++;
                if (occurs)
                    nt++;
                mc::crash_context("C19.replace.memory");
                Str got = igris::replace(src, sub, rep);
                mc::crash_context("C19.harness");
                mc::outcome(mc::fmt("replace delta=%ld", (long)got.size() - (long)src.size()));
                if (got != want)
                    mc::violation("C19.replace.value", "replace(%s, %s, %s) = %s, want %s", esc(src).c_str(), esc(sub).c_str(),
                                  esc(rep).c_str(), esc(got).c_str(), esc(want).c_str());
                // replace_substrings into an output buffer of exactly maxsize bytes
                size_t need = want.size() + 1;
                // every maxsize 0..need+1 and need+3: the cut falls on every byte of the result, also inside a match
                for (size_t maxsize = 0; maxsize <= need + 3; maxsize++)
                {
                    if (maxsize == need + 2)
                        continue;
                    PL in(src, 0), sb(sub, 1), rp(rep, 2);
                    Exact out(maxsize, 3);
                    mc::crash_context(maxsize < need ? "C19.replace_substrings.memory.result_longer_than_maxsize"
                                                     : "C19.replace_substrings.memory");
                    replace_substrings(out.p, maxsize, in.p, in.n, sb.p, sb.n, rp.p, rp.n);
                    mc::crash_context("C19.harness");
                    if (maxsize >= need)
                    {
                        if (memcmp(out.p, want.data(), want.size()) != 0 || out.p[want.size()] != 0)
                            mc::violation("C19.replace_substrings.value", "replace_substrings(%s, %s, %s, maxsize=%zu) = %s, want %s",
                                          esc(src).c_str(), esc(sub).c_str(), esc(rep).c_str(), maxsize,
                                          esc(Str(out.p, want.size() + 1)).c_str(), esc(want).c_str());
                    }
                    else if (maxsize >= 1)
                    { // replace_substrings.c: "The result is cut to maxsize - 1 bytes and always terminated"
                        mc::count("replace_substrings_truncating_calls");
                        if (memcmp(out.p, want.data(), maxsize - 1) != 0 || out.p[maxsize - 1] != 0)
                            mc::violation(sub.size() == rep.size() ? "C19.replace_substrings.truncated_value.equal_lengths"
                                                                   : "C19.replace_substrings.truncated_value",
                                          "replace_substrings(%s, %s, %s, maxsize=%zu) = %s, want the first %zu bytes of %s and a NUL",
                                          esc(src).c_str(), esc(sub).c_str(), esc(rep).c_str(), maxsize, esc(Str(out.p, maxsize)).c_str(),
                                          maxsize - 1, esc(want).c_str());
                    }
                }
            }
        }
        if (nt)
            mc::nontrivial();
        mc::more_cases((uint64_t)n - 1, (uint64_t)(nt ? nt - 1 : 0));
    });
}
