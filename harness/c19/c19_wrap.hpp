// Thin out-of-line wrappers around the header-only igris routines.  They live in
// their own TU compiled at -O0 so that every load the source performs is really
// executed (and seen by ASan), whatever the optimiser would have dropped.
#pragma once
#include <cstddef>
#include <string>
#include <string_view>
#include <vector>

std::string w_trim(const char *p, size_t n);
std::string w_trim_s(const std::string &s);      // through the implicit std::string -> igris::buffer conversion
std::string w_trim_sv(std::string_view s);         // through the implicit string_view -> igris::buffer conversion
std::string w_join_iter(const std::vector<std::string> &v, const char *delim, const char *prefix, const char *postfix);
int w_argvc_split(char *data, char **argv, int argcmax);
int w_argvc_split_n(char *data, int maxlen, char **argv, int argcmax);
const char *w_path_next(const char *path, unsigned int *plen);
const char *w_path_iterate(const char *path);
int w_path_compare_node(const char *a, const char *b);
const char *w_path_remove_prefix(const char *path, const char *prefix);

void *w_creader_new(const char *p, size_t n);
void w_creader_del(void *r);
long w_creader_readline(void *r, const char **token);
int w_creader_skip(void *r, const char *symbols);
int w_creader_skipws(void *r);
int w_creader_end(void *r);
long w_creader_curpos(void *r);
