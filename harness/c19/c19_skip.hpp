// C19 — functional oracle for creader_skip / creader_skipws (shared by the exhaustive and the long sub-check):
// the cursor advances over exactly the leading bytes that are members of `symbols` (a NUL byte of the input
// is never a member: the terminator of `symbols` is not part of the set), the count is returned, and a second
// call skips nothing more.
#pragma once
#include "c19_common.hpp"
#include "c19_wrap.hpp"

static inline void check_creader_skip(const Str &s, const char *sfx, Str (*show)(const Str &))
{
    static const char *SETS[6] = {" \t\n", " ", "ab", "", "\x89 ", nullptr}; // nullptr = creader_skipws: "\t\n\r "
    for (int k = 0; k < 6; k++)
    {
        const char *set = SETS[k] ? SETS[k] : "\t\n\r ";
        const char *fn = SETS[k] ? "creader_skip" : "creader_skipws";
        long want = ref_skip(s, set);
        PL b(s);
        CS sym(set, 1);
        b.freeze(), sym.freeze();
        void *r = w_creader_new(b.p, b.n);
        mc::crash_context("C19.%s.memory%s", fn, sfx);
        int cnt = SETS[k] ? w_creader_skip(r, sym.p) : w_creader_skipws(r);
        long cur = w_creader_curpos(r);
        int again = SETS[k] ? w_creader_skip(r, sym.p) : w_creader_skipws(r);
        long cur2 = w_creader_curpos(r);
        mc::crash_context("C19.harness");
        mc::outcome(want > 20 ? Str("skip many") : mc::fmt("skip=%ld", want));
        if (want > 0 && want < (long)s.size())
            mc::nontrivial();
        bool nul_stop = want < (long)s.size() && s[want] == '\0';
        if (cnt < 0 || cnt > (long)b.n || cur < 0 || cur > (long)b.n)
            mc::violation(Str("C19.") + fn + ".extent" + sfx, "%s(%s, %s): skipped %d, cursor %ld, buffer %zu", fn, show(s).c_str(),
                          esc(set).c_str(), cnt, cur, b.n);
        else if (cnt != want || cur != want)
            mc::violation(Str("C19.") + fn + (nul_stop ? ".value.nul_in_input" : ".value") + sfx,
                          "%s(%s, %s): returned %d, cursor %ld; the leading run of members is %ld bytes", fn, show(s).c_str(),
                          esc(set).c_str(), cnt, cur, want);
        else if (again != 0 || cur2 != cur)
            mc::violation(Str("C19.") + fn + ".second_call" + sfx, "%s(%s, %s): a second call skipped %d more (cursor %ld -> %ld)", fn,
                          show(s).c_str(), esc(set).c_str(), again, cur, cur2);
        w_creader_del(r);
    }
    mc::more_cases(6);
}
