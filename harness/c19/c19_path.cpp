// C19 — path helpers: path_next, path_iterate (all paths of length 0..L over {a,b,/,.}) and
// path_compare_node, path_remove_prefix (all pairs), each path held as "bytes, one NUL, nothing after",
// compared with a component-wise reference built on ONE tokenisation of the path into components.
#include "c19_common.hpp"
#include "c19_wrap.hpp"

static const char PSIG[] = {'a', 'b', '/', '.'};
static const int NP = 4;

// components = maximal runs of non-'/' bytes; "." components do not count as nodes
static std::vector<Run> real_components(const Str &s, size_t from)
{
    std::vector<Run> r;
    for (auto &c : ref_runs(s, s.size(), [](char ch) { return ch == '/'; }))
        if (c.off >= from && !(c.len == 1 && s[c.off] == '.'))
            r.push_back(c);
    return r;
}
// first node at/after the start: offset+length, or none
static bool ref_next(const Str &s, Run *out)
{
    auto rc = real_components(s, 0);
    if (rc.empty())
        return false;
    *out = rc[0];
    return true;
}
// offset of the node after the current one ("/" at the start counts as a node); -1 = NULL
static long ref_iterate(const Str &s)
{
    if (s.empty())
        return -1;
    size_t from = 0;
    if (s[0] != '/')
        from = std::min(s.find('/'), s.size()); // end of the current node
    auto rc = real_components(s, from);
    return rc.empty() ? (long)s.size() : (long)rc[0].off;
}
static Str node_at(const Str &s, size_t off)
{
    size_t e = s.find('/', off);
    return s.substr(off, (e == Str::npos ? s.size() : e) - off);
}
static int ref_compare_node(const Str &a, size_t ao, const Str &b, size_t bo)
{
    Str x = node_at(a, ao), y = node_at(b, bo);
    return x < y ? -1 : (x > y ? 1 : 0);
}
// strip leading nodes of `path` while they equal the leading nodes of `prefix` and both have something left
static size_t ref_remove_prefix(const Str &path, const Str &prefix)
{
    size_t p = 0, q = 0;
    while (p < path.size() && q < prefix.size() && ref_compare_node(path, p, prefix, q) == 0)
    {
        p += (size_t)ref_iterate(path.substr(p));
        q += (size_t)ref_iterate(prefix.substr(q));
    }
    return p;
}

MC_INIT
{
    mc::add_check("path_next_iterate", [] {
        int L = mc::thorough() ? 10 : 8;
        Str s = enum_str(PSIG, NP, L, 3);
        mc::describe("path_next/path_iterate path=%s", esc(s).c_str());
        if (s.find("/.") != Str::npos || s.find("./") != Str::npos || s.find("//") != Str::npos)
            mc::nontrivial();
        Run want;
        bool have = ref_next(s, &want);
        for (int with_len = 0; with_len < 2; with_len++)
        {
            CS b(s);
            unsigned int len = 0xDEAD;
            mc::crash_context("C19.path_next.memory");
            const char *g = w_path_next(b.p, with_len ? &len : nullptr);
            mc::crash_context("C19.harness");
            long got = g ? (long)(g - b.p) : -1;
            mc::outcome(mc::fmt("next off=%ld", got));
            if (got != (have ? (long)want.off : -1))
                mc::violation("C19.path_next.value", "path_next(%s) -> offset %ld, first node is at %ld", esc(s).c_str(), got,
                              have ? (long)want.off : -1);
            else if (have && with_len && len != want.len)
                mc::violation("C19.path_next.length", "path_next(%s): length %u, want %zu", esc(s).c_str(), len, want.len);
        }
        {
            CS b(s);
            mc::crash_context("C19.path_iterate.memory");
            const char *g = w_path_iterate(b.p);
            mc::crash_context("C19.harness");
            long got = g ? (long)(g - b.p) : -1, w = ref_iterate(s);
            mc::outcome(mc::fmt("iterate off=%ld", got));
            if (got != w)
                mc::violation("C19.path_iterate.value", "path_iterate(%s) -> offset %ld, want %ld", esc(s).c_str(), got, w);
        }
        if (s.empty())
        { // with the empty path also the NULL path
            unsigned int len = 0;
            mc::crash_context("C19.path_next.memory.null");
            const char *a = w_path_next(nullptr, &len);
            mc::crash_context("C19.path_iterate.memory.null");
            const char *b = w_path_iterate(nullptr);
            mc::crash_context("C19.harness");
            if (a || b)
                mc::violation("C19.path_null.value", "path_next(NULL)/path_iterate(NULL) must give NULL");
            mc::more_cases(2);
        }
        mc::more_cases(2);
    });

    mc::add_check("path_pairs", [] {
        int L = mc::thorough() ? 5 : 4;
        Str a = enum_str(PSIG, NP, L, 3);
        long nb = count_upto(NP, L);
        mc::describe("path_compare_node/path_remove_prefix path=%s x all %ld prefixes of length <=%d", esc(a).c_str(), nb, L);
        long nt = 0;
        for (long k = 0; k < nb; k++)
        {
            Str b = nth_str(PSIG, NP, k);
            CS ab(a, 0), bb(b, 1);
            mc::crash_context("C19.path_compare_node.memory");
            int c = w_path_compare_node(ab.p, bb.p);
            mc::crash_context("C19.harness");
            int wc = ref_compare_node(a, 0, b, 0);
            mc::outcome(mc::fmt("cmp=%d", c));
            if (c != wc)
                mc::violation("C19.path_compare_node.value", "path_compare_node(%s, %s) = %d, want %d", esc(a).c_str(),
                              esc(b).c_str(), c, wc);
            bool one_empty = a.empty() != b.empty();
            bool other_abs = (a.empty() ? b : a)[0] == '/';
            mc::crash_context((one_empty && other_abs) ? "C19.path_remove_prefix.memory.empty_vs_leading_slash"
                                                       : "C19.path_remove_prefix.memory");
            const char *g = w_path_remove_prefix(ab.p, bb.p);
            mc::crash_context("C19.harness");
            long got = g ? (long)(g - ab.p) : -1, w = (long)ref_remove_prefix(a, b);
            mc::outcome(mc::fmt("rmprefix off=%ld", got));
            if (w > 0)
                nt++;
            if (got != w)
                mc::violation("C19.path_remove_prefix.value", "path_remove_prefix(%s, %s) -> offset %ld, want %ld",
                              esc(a).c_str(), esc(b).c_str(), got, w);
        }
        if (nt)
            mc::nontrivial();
        mc::more_cases((uint64_t)nb - 1, (uint64_t)(nt ? nt - 1 : 0));
    });
}
MC_MAIN
