// C19 — path helpers: path_next, path_iterate (all paths of length 0..L over {a,b,/,.}) and
// path_compare_node, path_remove_prefix (all pairs), each path held as "bytes, one NUL, nothing after",
// compared with a component-wise reference built on ONE tokenisation of the path into components.
#include "c19_common.hpp"
#include "c19_wrap.hpp"

static const char PSIG[] = {'a', 'b', '/', '.'};
static const int NP = 4;

// components = maximal runs of non-'/' bytes; "." components do not count as nodes
static std::vector<Run> real_components(const Str &s, size_t from)
{
    std::vector<Run> r;
    for (auto &c : ref_runs(s, s.size(), [](char ch) { return ch == '/'; }))
        if (c.off >= from && !(c.len == 1 && s[c.off] == '.'))
            r.push_back(c);
    return r;
}
// first node at/after the start: offset+length, or none
static bool ref_next(const Str &s, Run *out)
{
    auto rc = real_components(s, 0);
    if (rc.empty())
        return false;
    *out = rc[0];
    return true;
}
// offset of the node after the current one ("/" at the start counts as a node); -1 = NULL
static long ref_iterate(const Str &s)
{
    if (s.empty())
        return -1;
    size_t from = 0;
    if (s[0] != '/')
        from = std::min(s.find('/'), s.size()); // end of the current node
    auto rc = real_components(s, from);
    return rc.empty() ? (long)s.size() : (long)rc[0].off;
}
static Str node_at(const Str &s, size_t off)
{
    size_t e = s.find('/', off);
    return s.substr(off, (e == Str::npos ? s.size() : e) - off);
}
static int ref_compare_node(const Str &a, size_t ao, const Str &b, size_t bo)
{
    Str x = node_at(a, ao), y = node_at(b, bo);
    return x < y ? -1 : (x > y ? 1 : 0);
}
// strip leading nodes of `path` while they equal the leading nodes of `prefix` and both have something left
static size_t ref_remove_prefix(const Str &path, const Str &prefix)
{
    size_t p = 0, q = 0;
    while (p < path.size() && q < prefix.size() && ref_compare_node(path, p, prefix, q) == 0)
    {
        p += (size_t)ref_iterate(path.substr(p));
        q += (size_t)ref_iterate(prefix.substr(q));
    }
    return p;
}

// Position-local formulations of the same two definitions, linear in the path length, for the long inputs.
// They are cross-checked against the component-wise ones above on every short path / pair (harness error if
// they ever disagree), so the long sub-checks rest on the same reference.
static size_t skip_sep_local(const Str &s, size_t q)
{
    while (q < s.size() && (s[q] == '/' || (s[q] == '.' && (q + 1 == s.size() || s[q + 1] == '/'))))
        q++;
    return q;
}
static long iterate_local(const Str &s, size_t p)
{
    if (p >= s.size())
        return -1;
    size_t q = p;
    if (s[q] != '/')
        while (q < s.size() && s[q] != '/')
            q++;
    return (long)skip_sep_local(s, q);
}
static size_t remove_prefix_local(const Str &path, const Str &prefix)
{
    size_t p = 0, q = 0;
    while (p < path.size() && q < prefix.size() && ref_compare_node(path, p, prefix, q) == 0)
    {
        p = (size_t)iterate_local(path, p);
        q = (size_t)iterate_local(prefix, q);
    }
    return p;
}

MC_INIT
{
    mc::add_check("path_next_iterate", [] {
        int L = mc::thorough() ? 10 : 8;
        Str s = enum_str(PSIG, NP, L, 3);
        mc::describe("path_next/path_iterate path=%s", esc(s).c_str());
        if (s.find("/.") != Str::npos || s.find("./") != Str::npos || s.find("//") != Str::npos)
            mc::nontrivial();
        Run want;
        bool have = ref_next(s, &want);
        for (int with_len = 0; with_len < 2; with_len++)
        {
            CS b(s);
            unsigned int len = 0xDEAD;
            mc::crash_context("C19.path_next.memory");
            const char *g = w_path_next(b.p, with_len ? &len : nullptr);
            mc::crash_context("C19.harness");
            long got = g ? (long)(g - b.p) : -1;
            mc::outcome(mc::fmt("next off=%ld", got));
            if (got != (have ? (long)want.off : -1))
                mc::violation("C19.path_next.value", "path_next(%s) -> offset %ld, first node is at %ld", esc(s).c_str(), got,
                              have ? (long)want.off : -1);
            else if (have && with_len && len != want.len)
                mc::violation("C19.path_next.length", "path_next(%s): length %u, want %zu", esc(s).c_str(), len, want.len);
        }
        {
            CS b(s);
            mc::crash_context("C19.path_iterate.memory");
            const char *g = w_path_iterate(b.p);
            mc::crash_context("C19.harness");
            long got = g ? (long)(g - b.p) : -1, w = ref_iterate(s);
            if (iterate_local(s, 0) != w)
                mc::harness_error("iterate_local disagrees with the component-wise reference on %s", esc(s).c_str());
            mc::outcome(mc::fmt("iterate off=%ld", got));
            if (got != w)
                mc::violation("C19.path_iterate.value", "path_iterate(%s) -> offset %ld, want %ld", esc(s).c_str(), got, w);
        }
        if (s.empty())
        { // with the empty path also the NULL path
            unsigned int len = 0;
            mc::crash_context("C19.path_next.memory.null");
            const char *a = w_path_next(nullptr, &len);
            mc::crash_context("C19.path_iterate.memory.null");
            const char *b = w_path_iterate(nullptr);
            mc::crash_context("C19.harness");
            if (a || b)
                mc::violation("C19.path_null.value", "path_next(NULL)/path_iterate(NULL) must give NULL");
            mc::more_cases(2);
        }
        mc::more_cases(2);
    });

    mc::add_check("path_pairs", [] {
        int L = mc::thorough() ? 5 : 4;
        Str a = enum_str(PSIG, NP, L, 3);
        long nb = count_upto(NP, L);
        mc::describe("path_compare_node/path_remove_prefix path=%s x all %ld prefixes of length <=%d", esc(a).c_str(), nb, L);
        long nt = 0;
        for (long k = 0; k < nb; k++)
        {
            Str b = nth_str(PSIG, NP, k);
            CS ab(a, 0), bb(b, 1);
            mc::crash_context("C19.path_compare_node.memory");
            int c = w_path_compare_node(ab.p, bb.p);
            mc::crash_context("C19.harness");
            int wc = ref_compare_node(a, 0, b, 0);
            mc::outcome(mc::fmt("cmp=%d", c));
            if (c != wc)
                mc::violation("C19.path_compare_node.value", "path_compare_node(%s, %s) = %d, want %d", esc(a).c_str(),
                              esc(b).c_str(), c, wc);
            bool one_empty = a.empty() != b.empty();
            bool other_abs = (a.empty() ? b : a)[0] == '/';
            mc::crash_context((one_empty && other_abs) ? "C19.path_remove_prefix.memory.empty_vs_leading_slash"
                                                       : "C19.path_remove_prefix.memory");
            const char *g = w_path_remove_prefix(ab.p, bb.p);
            mc::crash_context("C19.harness");
            long got = g ? (long)(g - ab.p) : -1, w = (long)ref_remove_prefix(a, b);
            if ((long)remove_prefix_local(a, b) != w)
                mc::harness_error("remove_prefix_local disagrees with the component-wise reference on %s, %s", esc(a).c_str(), esc(b).c_str());
            mc::outcome(mc::fmt("rmprefix off=%ld", got));
            if (w > 0)
                nt++;
            if (got != w)
                mc::violation("C19.path_remove_prefix.value", "path_remove_prefix(%s, %s) -> offset %ld, want %ld",
                              esc(a).c_str(), esc(b).c_str(), got, w);
        }
        if (nt)
            mc::nontrivial();
        mc::more_cases((uint64_t)nb - 1, (uint64_t)(nt ? nt - 1 : 0));
    });

    // ---------------------------------------------------------------- long paths (see c19_long.cpp for the rationale)
    mc::add_check("long_paths", [] {
        Str s = long_input('/', "long path through path_next and a complete path_iterate walk");
        if (s.size() > 255)
            mc::nontrivial();
        for (int pass = 0; pass < 2; pass++)
        {
            Run want;
            bool have = ref_next(s, &want);
            {
                CS b(s);
                unsigned int len = 0xDEAD;
                mc::crash_context("C19.path_next.memory.long_input");
                const char *g = w_path_next(b.p, &len);
                mc::crash_context("C19.harness");
                long got = g ? (long)(g - b.p) : -1;
                mc::outcome(mc::fmt("next off=%ld len=%u", got, have ? len : 0));
                if (got != (have ? (long)want.off : -1))
                    mc::violation("C19.path_next.value.long_input", "path_next(%s) -> offset %ld, first node is at %ld",
                                  escb(s).c_str(), got, have ? (long)want.off : -1);
                else if (have && len != want.len)
                    mc::violation("C19.path_next.length.long_input", "path_next(%s): length %u, want %zu", escb(s).c_str(), len,
                                  want.len);
            }
            {
                CS b(s);
                long first = ref_iterate(s);
                size_t p = 0;
                long steps = 0;
                for (;;)
                {
                    mc::crash_context("C19.path_iterate.memory.long_input");
                    const char *g = w_path_iterate(b.p + p);
                    mc::crash_context("C19.harness");
                    long got = g ? (long)(g - b.p) : -1, w = steps == 0 ? first : iterate_local(s, p);
                    if (got != w)
                    {
                        mc::violation("C19.path_iterate.value.long_input", "path_iterate(%s + %zu) -> offset %ld, want %ld (step %ld)",
                                      escb(s).c_str(), p, got, w, steps);
                        break;
                    }
                    if (got < 0)
                        break;
                    p = (size_t)got;
                    steps++;
                }
                mc::outcome(mc::fmt("walk steps=%ld", steps));
            }
            for (size_t i = 2; i < s.size(); i += 4) // second pass: dots sprinkled in ("a/./a/./" for the one-letter pattern)
                if (s[i] != '/')
                    s[i] = '.';
        }
        mc::more_cases(3, 3);
    });

    mc::add_check("long_path_pairs", [] {
        std::vector<size_t> Ls = long_lengths();
        int u = mc::choose((int)Ls.size() * (LONG_NPOS + 3) * 3);
        size_t L = Ls[u / ((LONG_NPOS + 3) * 3)];
        int pk = (u / 3) % (LONG_NPOS + 3), shape = u % 3;
        // a: shape 0 = one component of L bytes; 1 = that + "/tail"; 2 = period-251 filler with '/' every 7th byte
        Str a(L, 'a');
        for (size_t i = 0; i < L; i++)
            a[i] = (shape == 2 && i % 7 == 6) ? '/' : long_filler(i);
        if (shape == 1)
            a += "/tail";
        // b: equal / one byte shorter / one byte longer / different in ONE byte at {0,1,254,255,256,257,len-1}
        Str b = a;
        const char *what = "equal";
        static char buf[64];
        if (pk < LONG_NPOS)
        {
            size_t p = long_pos(pk, L);
            b[p] = (b[p] == 'z') ? 'y' : 'z';
            snprintf(buf, sizeof buf, "differs at %zu", p);
            what = buf;
        }
        else if (pk == LONG_NPOS + 1)
        {
            b = a.substr(0, L - 1);
            what = "is one byte shorter";
        }
        else if (pk == LONG_NPOS + 2)
        {
            b = a.substr(0, L) + "q";
            what = "is one byte longer";
        }
        mc::describe("path_compare_node/path_remove_prefix len=%zu shape=%d, second operand %s", L, shape, what);
        if (L > 255)
            mc::nontrivial();
        for (int swap = 0; swap < 2; swap++)
        {
            const Str &x = swap ? b : a, &y = swap ? a : b;
            CS xb(x, 0), yb(y, 1);
            mc::crash_context("C19.path_compare_node.memory.long_input");
            int c = w_path_compare_node(xb.p, yb.p);
            mc::crash_context("C19.harness");
            int wc = ref_compare_node(x, 0, y, 0);
            mc::outcome(mc::fmt("cmp=%d", c));
            if (c != wc)
                mc::violation("C19.path_compare_node.value.long_input", "path_compare_node(%s, %s) = %d, want %d", escb(x).c_str(),
                              escb(y).c_str(), c, wc);
            mc::crash_context("C19.path_remove_prefix.memory.long_input");
            const char *g = w_path_remove_prefix(xb.p, yb.p);
            mc::crash_context("C19.harness");
            long got = g ? (long)(g - xb.p) : -1, w = (long)remove_prefix_local(x, y);
            mc::outcome(mc::fmt("rmprefix off=%ld", got));
            if (got != w)
                mc::violation("C19.path_remove_prefix.value.long_input", "path_remove_prefix(%s, %s) -> offset %ld, want %ld",
                              escb(x).c_str(), escb(y).c_str(), got, w);
        }
        mc::more_cases(3, 3);
    });

    // ---------------------------------------------------------------- const paths in read-only memory
    mc::add_check("readonly_paths", [] {
        int L = mc::thorough() ? 4 : 3;
        Str a = enum_str(PSIG, NP, L, 3);
        long nb = count_upto(NP, L);
        mc::describe("read-only path=%s: path_next/path_iterate, and compare_node/remove_prefix x all %ld read-only prefixes <=%d", esc(a).c_str(), nb, L);
        mc::nontrivial();
        RoMode ro;
        {
            CS b(a);
            b.freeze();
            unsigned int len = 0;
            Run want;
            bool have = ref_next(a, &want);
            mc::crash_context("C19.path_next.memory.readonly_input");
            const char *g = w_path_next(b.p, &len);
            mc::crash_context("C19.path_iterate.memory.readonly_input");
            const char *h = w_path_iterate(b.p);
            mc::crash_context("C19.harness");
            if ((g ? (long)(g - b.p) : -1) != (have ? (long)want.off : -1) || (h ? (long)(h - b.p) : -1) != ref_iterate(a))
                mc::violation("C19.path_next_iterate.value.readonly_input", "path_next/path_iterate(%s) differ from the reference", esc(a).c_str());
        }
        for (long k = 0; k < nb; k++)
        {
            Str b = nth_str(PSIG, NP, k);
            CS ab(a, 0), bb(b, 1);
            ab.freeze(), bb.freeze();
            mc::crash_context("C19.path_compare_node.memory.readonly_input");
            int c = w_path_compare_node(ab.p, bb.p);
            mc::crash_context("C19.path_remove_prefix.memory.readonly_input");
            const char *g = w_path_remove_prefix(ab.p, bb.p);
            mc::crash_context("C19.harness");
            if (c != ref_compare_node(a, 0, b, 0) || (g ? (long)(g - ab.p) : -1) != (long)ref_remove_prefix(a, b))
                mc::violation("C19.path_pairs.value.readonly_input", "compare_node/remove_prefix(%s, %s) differ from the reference", esc(a).c_str(),
                              esc(b).c_str());
        }
        mc::more_cases((uint64_t)nb, (uint64_t)nb);
    });
}
MC_MAIN
