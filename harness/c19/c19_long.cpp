// C19 — long inputs for the (pointer,length) text routines.  The exhaustive sub-checks stop at 7 bytes, so a
// counter, index or length kept in 8 or 16 bits inside the code under test would be invisible to them.  Here:
// lengths {127,128,255,256,257,300,1000} (thorough adds {65535,65536,65537}) x the patterns of c19_common.hpp
// (one long token; period-251 filler with a delimiter every 7 bytes; delimiters only; len/2 one-letter tokens;
// ONE delimiter / ONE letter at {0,1,254,255,256,257,len-1}), same references, same exactly-sized
// non-terminated buffers.  Signatures carry ".long_input" so that they are distinct from the short space.
#include "c19_common.hpp"
#include "c19_wrap.hpp"
#include "c19_skip.hpp"
#include <algorithm>
#include <igris/buffer.h>
#include <igris/util/string.h>
#include <string_view>

// input class of the sub-check that is running: the suffix of every signature produced below
static const char *g_sfx = ".long_input";

static void long_split_char_join(const Str &s, char d)
{
    auto isd = [d](char c) { return c == d; };
    Toks want = ref_split(s, isd);
    if (want.size() > 255 || s.size() > 255)
        mc::nontrivial();
    PL b(s);
    b.freeze();
    mc::crash_context("C19.split_char.memory%s", g_sfx);
    Toks got = igris::split(igris::buffer((const void *)b.p, b.n), d);
    mc::crash_context("C19.harness");
    mc::outcome(mc::fmt("split_char ntok=%zu", got.size()));
    if (got != want)
        mc::violation(Str("C19.split_char.value") + g_sfx, "split(%s, %s) = %s, maximal runs are %s", escb(s).c_str(),
                      esc(Str(1, d)).c_str(), escb(got).c_str(), escb(want).c_str());
    // join: inverse on this token list, through the definition of split and through the real split
    mc::crash_context("C19.join.memory%s", g_sfx);
    Str j = igris::join(want, d);
    mc::crash_context("C19.harness");
    if (ref_split(j, isd) != want)
        mc::violation(Str("C19.join.inverse") + g_sfx, "join(%s, %s) = %s does not split back", escb(want).c_str(),
                      esc(Str(1, d)).c_str(), escb(j).c_str());
    {
        PL jb(j, 1);
        jb.freeze();
        mc::crash_context("C19.split_char.memory%s", g_sfx);
        Toks rt = igris::split(igris::buffer((const void *)jb.p, jb.n), d);
        mc::crash_context("C19.harness");
        if (rt != want)
            mc::violation(Str("C19.split_join.roundtrip") + g_sfx, "split(join(%s)) = %s", escb(want).c_str(), escb(rt).c_str());
    }
    if (d == '\0')
        return; // the iterator overload takes its delimiter as a C string: NUL cannot be one
    CS ds(Str(1, d), 2), e1("", 3), e2("", 4);
    ds.freeze(), e1.freeze(), e2.freeze();
    mc::crash_context("C19.join_iter.memory%s", g_sfx);
    Str ji = w_join_iter(want, ds.p, e1.p, e2.p);
    mc::crash_context("C19.harness");
    if (ref_split(ji, isd) != want)
        mc::violation(Str("C19.join_iter.inverse") + g_sfx, "join(begin,end,%s,\"\",\"\") of %s = %s does not split back",
                      esc(Str(1, d)).c_str(), escb(want).c_str(), escb(ji).c_str());
}

static void long_split_delims(const Str &s, const char *ds)
{
    auto isd = [ds](char c) { return c != 0 && strchr(ds, c) != nullptr; };
    Toks want = ref_split(s, isd);
    PL b(s);
    CS dl(ds, 1);
    b.freeze(), dl.freeze();
    mc::crash_context("C19.split_delims.memory%s", g_sfx);
    Toks got = igris::split(igris::buffer((const void *)b.p, b.n), (const char *)dl.p);
    mc::crash_context("C19.harness");
    mc::outcome(mc::fmt("split_delims ntok=%zu", got.size()));
    if (got != want)
        mc::violation(Str("C19.split_delims.value") + g_sfx, "split(%s, %s) = %s, maximal runs are %s", escb(s).c_str(),
                      esc(ds).c_str(), escb(got).c_str(), escb(want).c_str());
}

static void long_trim(const Str &s)
{
    Str want = ref_trim(s);
    PL b(s);
    b.freeze();
    mc::crash_context("C19.trim.memory%s", g_sfx);
    Str got = w_trim(b.p, b.n);
    mc::crash_context("C19.harness");
    mc::outcome(mc::fmt("trim removed=%zu", s.size() - got.size()));
    if (got != want)
        mc::violation(Str("C19.trim.value") + g_sfx, "trim(%s) = %s, want %s", escb(s).c_str(), escb(got).c_str(),
                      escb(want).c_str());
}

static void long_cmdargs(const Str &s)
{
    Toks want = ref_cmdargs(s);
    PL b(s);
    b.freeze();
    mc::crash_context("C19.split_cmdargs.memory%s", g_sfx);
    Toks got = igris::split_cmdargs(igris::buffer((const void *)b.p, b.n));
    mc::crash_context("C19.harness");
    mc::outcome(mc::fmt("cmdargs ntok=%zu", got.size()));
    if (got != want)
        mc::violation(Str("C19.split_cmdargs.value") + g_sfx, "split_cmdargs(%s) = %s, want %s", escb(s).c_str(),
                      escb(got).c_str(), escb(want).c_str());
}

static void long_split_n(const Str &s, int argcmax)
{
    size_t eff = std::min(s.find('\0'), s.size());
    std::vector<Run> runs = ref_runs(s, eff, is_ws4);
    int want = (int)std::min<size_t>(runs.size(), (size_t)argcmax);
    PL b(s);
    Exact av((size_t)argcmax * sizeof(char *), 1, 0);
    char **argv = (char **)av.p;
    mc::crash_context("C19.argvc_split_n.memory%s", g_sfx);
    int argc = w_argvc_split_n(b.p, (int)b.n, argv, argcmax);
    mc::crash_context("C19.harness");
    mc::outcome(mc::fmt("split_n argc=%d", argc));
    if (argc > argcmax)
        mc::violation(Str("C19.argvc_split_n.argc_exceeds_max") + g_sfx, "split_n(%s, argcmax=%d) returned %d", escb(s).c_str(),
                      argcmax, argc);
    else if (argc != want)
        mc::violation(Str("C19.argvc_split_n.argc") + g_sfx, "split_n(%s, argcmax=%d) returned %d, want %d", escb(s).c_str(),
                      argcmax, argc, want);
    for (int i = 0; i < argc && i < want; i++)
    {
        long off = argv[i] - b.p;
        const Run &r = runs[i];
        if (off != (long)r.off || memcmp(b.p + r.off, s.data() + r.off, r.len) != 0)
        {
            mc::violation(Str("C19.argvc_split_n.argv") + g_sfx, "split_n(%s, argcmax=%d): argv[%d] at offset %ld, want %zu (+%zu)",
                          escb(s).c_str(), argcmax, i, off, r.off, r.len);
            break;
        }
        if (r.off + r.len < b.n && b.p[r.off + r.len] != 0)
        {
            mc::violation(Str("C19.argvc_split_n.unterminated") + g_sfx, "split_n(%s, argcmax=%d): argv[%d] not terminated",
                          escb(s).c_str(), argcmax, i);
            break;
        }
    }
}

static void long_creader(const Str &s)
{
    PL b(s);
    b.freeze();
    void *r = w_creader_new(b.p, b.n);
    long lines = 0;
    for (size_t it = 0; it < s.size() + 3; it++)
    {
        long before = w_creader_curpos(r);
        const char *tok = nullptr;
        mc::crash_context("C19.creader_readline.memory%s", g_sfx);
        long len = w_creader_readline(r, &tok);
        mc::crash_context("C19.harness");
        long cur = w_creader_curpos(r);
        if (cur < 0 || cur > (long)b.n || len < -1 || tok < b.p || (len >= 0 && tok + len > b.p + b.n))
        {
            mc::violation(Str("C19.creader_readline.extent") + g_sfx, "%s: line [%ld,+%ld), cursor %ld, buffer %zu", escb(s).c_str(),
                          (long)(tok - b.p), len, cur, b.n);
            break;
        }
        if (len < 0 || cur == before)
            break;
        lines++;
    }
    mc::outcome(mc::fmt("creader lines=%ld", lines));
    w_creader_del(r);
    check_creader_skip(s, g_sfx, [](const Str &x) { return escb(x); });
}

static void long_memmem(const Str &h, const Str &nd)
{
    PL hb(h, 0), nb(nd, 1);
    hb.freeze(), nb.freeze();
    mc::crash_context("C19.memmem.memory%s", g_sfx);
    char *g = (char *)igris_memmem(hb.p, hb.n, nb.p, nb.n);
    mc::crash_context("C19.harness");
    long got = g ? (long)(g - hb.p) : -1, want = ref_memmem(h, nd);
    mc::outcome(mc::fmt("memmem at %ld", got));
    if (want > 255)
        mc::nontrivial();
    if (got != want)
        mc::violation(Str("C19.memmem.value") + g_sfx, "igris_memmem(%s, %s) = %ld, first occurrence is %ld", escb(h).c_str(),
                      escb(nd).c_str(), got, want);
}

static void long_replace(const Str &src, const Str &sub, const Str &rep)
{
    Str want = ref_replace(src, sub, rep);
    if (want.size() > 255)
        mc::nontrivial();
    mc::crash_context("C19.replace.memory%s", g_sfx);
    Str got = igris::replace(src, sub, rep);
    mc::crash_context("C19.harness");
    mc::outcome(mc::fmt("replace delta=%ld", (long)got.size() - (long)src.size()));
    if (got != want)
        mc::violation(Str("C19.replace.value") + g_sfx, "replace(%s, %s, %s) = %s, want %s", escb(src).c_str(), escb(sub).c_str(),
                      escb(rep).c_str(), escb(got).c_str(), escb(want).c_str());
    size_t need = want.size() + 1;
    std::vector<size_t> sizes = {0, 1, need - 1, need, need + 3};
    bool is_long = src.size() > 100; // buffer sizes around 2^8 / 2^16 only for the long inputs
    if (is_long)
    {
        sizes.push_back(255);
        sizes.push_back(256);
        sizes.push_back(257);
    }
    if (is_long && mc::thorough())
    {
        sizes.push_back(65535);
        sizes.push_back(65536);
        sizes.push_back(65537);
    }
    std::sort(sizes.begin(), sizes.end());
    sizes.erase(std::unique(sizes.begin(), sizes.end()), sizes.end());
    for (size_t maxsize : sizes)
    {
        PL in(src, 0), sb(sub, 1), rp(rep, 2);
        in.freeze(), sb.freeze(), rp.freeze();
        Exact out(maxsize, 3);
        mc::crash_context(maxsize < need ? "C19.replace_substrings.memory.result_longer_than_maxsize%s"
                                         : "C19.replace_substrings.memory%s", g_sfx);
        replace_substrings(out.p, maxsize, in.p, in.n, sb.p, sb.n, rp.p, rp.n);
        mc::crash_context("C19.harness");
        if (maxsize >= need)
        {
            if (memcmp(out.p, want.data(), want.size()) != 0 || out.p[want.size()] != 0)
                mc::violation(Str("C19.replace_substrings.value") + g_sfx, "replace_substrings(%s, %s, %s, maxsize=%zu) = %s, want %s",
                              escb(src).c_str(), escb(sub).c_str(), escb(rep).c_str(), maxsize,
                              escb(Str(out.p, want.size() + 1)).c_str(), escb(want).c_str());
        }
        else if (maxsize >= 1)
        { // replace_substrings.c: "The result is cut to maxsize - 1 bytes and always terminated"
            mc::count("replace_substrings_truncating_calls");
            if (memcmp(out.p, want.data(), maxsize - 1) != 0 || out.p[maxsize - 1] != 0)
                mc::violation(Str(sub.size() == rep.size() ? "C19.replace_substrings.truncated_value.equal_lengths"
                                                            : "C19.replace_substrings.truncated_value") + g_sfx,
                              "replace_substrings(%s, %s, %s, maxsize=%zu) = %s, want the first %zu bytes of %s and a NUL", escb(src).c_str(),
                              escb(sub).c_str(), escb(rep).c_str(), maxsize, escb(Str(out.p, maxsize)).c_str(), maxsize - 1,
                              escb(want).c_str());
        }
    }
}

MC_INIT
{
    // split(char), split(delims), both joins, trim, split_cmdargs, argvc_internal_split_n, creader
    mc::add_check("long_text", [] {
        g_sfx = ".long_input";
        int v = 0;
        Str s = long_input(' ', "long text through split/join/trim/split_cmdargs/split_n/creader", &v);
        long_split_char_join(s, ' ');
        long_split_delims(s, " \t");
        long_split_delims(s, "abcdefg"); // the filler letters as delimiters: tokens are the blanks
        long_split_delims(s, "");        // the empty set: the whole input is one token
        long_trim(s);
        {
            Str t = s; // tabs and CR/LF as the white space
            for (size_t i = 0; i < t.size(); i++)
                if (t[i] == ' ')
                    t[i] = "\t\r\n"[i % 3];
            long_trim(t);
            long_split_n(t, 1000);
        }
        long_cmdargs(s);
        if (!s.empty())
        {
            Str q = s;
            q[0] = '"'; // a quoted word that runs over the blanks to the end ...
            long_cmdargs(q);
            q[q.size() - 1] = '"'; // ... or to the closing quote in the last byte
            long_cmdargs(q);
        }
        static const int MAXS[5] = {10, 255, 256, 1000, 40000};
        for (int k = 0; k < 5; k++)
            if (MAXS[k] <= 1000 || s.size() > 65000)
                long_split_n(s, MAXS[k]);
        {
            Str l = s;
            std::replace(l.begin(), l.end(), ' ', '\n');
            long_creader(l);
            long_creader(s);
            std::replace(l.begin(), l.end(), 'a', '\0'); // NUL bytes inside the extent: never members of a symbol set
            long_creader(l);
        }
        mc::more_cases(17, 17);
    });

    // igris_memmem: needle lengths {1,2,255,256,257} placed at {0,1,254,255,256,257,end} or absent
    mc::add_check("long_memmem", [] {
        g_sfx = ".long_input";
        std::vector<size_t> Ls = long_lengths();
        static const size_t NL[5] = {1, 2, 255, 256, 257};
        int u = mc::choose((int)Ls.size() * 5 * (LONG_NPOS + 2));
        size_t L = Ls[u / (5 * (LONG_NPOS + 2))];
        size_t m = NL[(u / (LONG_NPOS + 2)) % 5];
        int pk = u % (LONG_NPOS + 2);
        // needle: a...ab (every proper prefix of it matches inside the all-'a' haystack); for m == 1 just "b"
        Str nd(m, 'a');
        nd[m - 1] = 'b';
        Str h(L, 'a');
        const char *where = "absent";
        size_t p = 0;
        if (pk < LONG_NPOS + 1 && m <= L)
        {
            p = pk < LONG_NPOS ? long_pos(pk, L) : L - m; // the last entry: flush with the end of the haystack
            if (p + m > L)
                p = L - m;
            memcpy(&h[p], nd.data(), m);
            where = "present";
        }
        mc::describe("igris_memmem haystack a^%zu, needle a^%zu b %s at %zu", L, m - 1, where, p);
        long_memmem(h, nd);
        // a second occurrence behind the first must not change the answer; nor a haystack cut right behind/inside it
        if (pk < LONG_NPOS + 1 && m <= L)
        {
            if (p + 2 * m <= L)
            {
                Str h2 = h;
                memcpy(&h2[L - m], nd.data(), m);
                long_memmem(h2, nd);
            }
            long_memmem(h.substr(0, p + m), nd);
            long_memmem(h.substr(0, p + m - 1), nd);
        }
        // period-251 haystack, needle = a slice of it that first occurs at p
        {
            Str hp(L, 'a');
            for (size_t i = 0; i < L; i++)
                hp[i] = (char)('A' + (i % 251) % 23);
            if (m <= L)
                long_memmem(hp, hp.substr(L - m, m));
        }
        mc::more_cases(4, 4);
    });

    // replace / replace_substrings: one pattern at {0,1,254,255,256,257,end}, or a pattern in every second position
    mc::add_check("long_replace", [] {
        g_sfx = ".long_input";
        std::vector<size_t> Ls = long_lengths();
        static const char *REPS[4] = {"", "x", "xyz", "bcbc"};
        int u = mc::choose((int)Ls.size() * (LONG_NPOS + 3) * 4);
        size_t L = Ls[u / ((LONG_NPOS + 3) * 4)];
        int pk = (u / 4) % (LONG_NPOS + 3);
        Str rep = REPS[u % 4], sub = "bc", src(L, 'a');
        const char *what;
        static char buf[64];
        if (pk < LONG_NPOS)
        {
            size_t p = std::min(long_pos(pk, L), L - 2);
            src[p] = 'b';
            src[p + 1] = 'c';
            snprintf(buf, sizeof buf, "\"bc\" once at %zu", p);
            what = buf;
        }
        else if (pk == LONG_NPOS)
        { // every second pair: len/4 matches, with "xyz"/"bcbc" the result outgrows the source
            for (size_t i = 0; i + 1 < L; i += 4)
            {
                src[i] = 'b';
                src[i + 1] = 'c';
            }
            what = "\"bc\" at every 4th byte";
        }
        else if (pk == LONG_NPOS + 1)
        { // nothing but matches
            for (size_t i = 0; i < L; i++)
                src[i] = (i % 2) ? 'c' : 'b';
            what = "\"bc\" repeated";
        }
        else
        { // a pattern of 256 bytes, once, in period-251 filler
            for (size_t i = 0; i < L; i++)
                src[i] = long_filler(i);
            size_t m = std::min<size_t>(256, L - 1);
            sub = src.substr(L - m, m);
            what = "a 256-byte pattern at the end";
        }
        mc::describe("replace/replace_substrings len=%zu %s -> %s, maxsize around 256/65536/need", L, what, esc(rep).c_str());
        long_replace(src, sub, rep);
    });

    // ---------------------------------------------------------------- bytes >= 0x80
    // char is signed here: a comparison such as `c <= ' '`, a table or shift indexed by a char, or a cast through int
    // behaves differently for 0x80..0xFF.  All strings of length 0..5 (thorough 6) over
    // {space, a, LF, 0x80, 0x89, 0xA0, 0xC3, 0xE0, 0xFF}: high bytes at the edges and inside, also AS the delimiter.
    mc::add_check("high_bytes_text", [] {
        g_sfx = ".high_bytes";
        static const char HB[9] = {' ', 'a', '\n', (char)0x80, (char)0x89, (char)0xA0, (char)0xC3, (char)0xE0, (char)0xFF};
        Str s = enum_str(HB, 9, mc::thorough() ? 6 : 5, 2);
        mc::describe("bytes>=0x80: input=%s through split/join/trim/split_cmdargs/split_n/creader/memmem/replace", esc(s).c_str());
        bool high = false;
        for (unsigned char c : s)
            high |= c >= 0x80;
        if (high)
            mc::nontrivial();
        long_split_char_join(s, ' ');
        long_split_char_join(s, (char)0xFF);
        long_split_char_join(s, (char)0x89);
        long_split_delims(s, " ");
        long_split_delims(s, "\x89\xE0");
        long_split_delims(s, "");
        long_trim(s);
        long_cmdargs(s);
        long_split_n(s, 2);
        long_split_n(s, 10);
        long_creader(s);
        // the string as haystack / source, its own 1- and 2-byte slices and two fixed high-byte needles as needle / pattern
        std::vector<Str> nds = {Str("\x80"), Str("\xFF\x80"), Str("a\xE0")};
        if (s.size() >= 1)
            nds.push_back(s.substr(s.size() - 1));
        if (s.size() >= 2)
            nds.push_back(s.substr(s.size() - 2));
        for (auto &nd : nds)
        {
            long_memmem(s, nd);
            long_replace(s, nd, Str("\xFF"));
        }
        mc::more_cases(10 + 2 * nds.size(), high ? 10 + 2 * nds.size() : 0);
    });

    // ---------------------------------------------------------------- two calls with different arguments in one case
    // The routines are stateless: what a call returns must not depend on the call before it.  decoy, input, decoy —
    // every call is compared with the reference of its own argument.  (Workers run many cases in one process, so a
    // hidden static would also leak from case to case; inside one case the history is fixed and replays.)
    mc::add_check("two_calls_text", [] {
        g_sfx = ".second_call";
        static const char SG[10] = {' ', 'a', 'b', '"', '\'', '/', '.', '\0', '\t', '\n'};
        Str s = enum_str(SG, 10, mc::thorough() ? 5 : 4, 2);
        static const Str DECOY[3] = {Str("a b"), Str(" \t"), Str("\"b a\" /.")};
        mc::describe("each routine on decoy, then on input=%s, then on the decoy again (3 decoys)", esc(s).c_str());
        if (!s.empty())
            mc::nontrivial();
        for (int d = 0; d < 3; d++)
            for (int pass = 0; pass < 3; pass++)
            {
                const Str &x = pass == 1 ? s : DECOY[d];
                long_split_char_join(x, ' ');
                long_split_delims(x, pass == 1 ? " \t" : "ab");
                long_trim(x);
                long_cmdargs(x);
                long_split_n(x, pass == 1 ? 10 : 1);
                long_creader(x);
                long_memmem(x, pass == 1 ? Str("a") : Str("b"));
                long_replace(x, pass == 1 ? Str("a") : Str("b"), pass == 1 ? Str("xy") : Str(""));
            }
        mc::more_cases(71, s.empty() ? 0 : 71);
    });

    // ---------------------------------------------------------------- const inputs in read-only memory
    // Every routine that takes its text as const gets it in a PROT_READ mapping flush against a PROT_NONE page (both
    // builds): all inputs of length 0..4 (thorough 5) over the 10-symbol alphabet and three long patterns.
    mc::add_check("readonly_inputs", [] {
        g_sfx = ".readonly_input";
        static const char SG[10] = {' ', 'a', 'b', '"', '\'', '/', '.', '\0', '\t', '\n'};
        int L = mc::thorough() ? 5 : 4;
        long nshort = count_upto(10, L);
        int u = mc::choose((int)nshort + 3 * LP_COUNT);
        Str s;
        if (u < nshort)
            s = nth_str(SG, 10, u);
        else
        {
            static const size_t LL[3] = {255, 256, 1000};
            const char *nm = "";
            s = long_pattern((u - (int)nshort) % LP_COUNT, LL[(u - nshort) / LP_COUNT], ' ', &nm);
        }
        mc::describe("read-only input=%s through split/join/trim/split_cmdargs/creader/memmem/replace_substrings", escb(s).c_str());
        mc::nontrivial();
        RoMode ro;
        long_split_char_join(s, ' ');
        long_split_char_join(s, '\0');
        long_split_delims(s, " \t");
        long_split_delims(s, "");
        long_trim(s);
        long_cmdargs(s);
        long_creader(s);
        long_memmem(s, "b");
        long_memmem(s, s.size() > 2 ? s.substr(s.size() - 2) : Str("ab"));
        long_replace(s, "a", "bb");
        mc::more_cases(9, 9);
    });

    // ---------------------------------------------------------------- igris::buffer conversions
    // The entry points take igris::buffer; callers hand over std::string / std::string_view and rely on the implicit
    // conversion.  A string with embedded NULs must arrive whole: all strings 0..5 (thorough 6) over the 10-symbol alphabet.
    mc::add_check("buffer_conversions", [] {
        static const char SG[10] = {' ', 'a', 'b', '"', '\'', '/', '.', '\0', '\t', '\n'};
        Str s = enum_str(SG, 10, mc::thorough() ? 6 : 5, 2);
        mc::describe("std::string / string_view -> igris::buffer: input=%s through split, split(delims), split_cmdargs, trim", esc(s).c_str());
        bool nul = s.find('\0') != Str::npos;
        if (nul)
            mc::nontrivial();
        auto is_sp = [](char c) { return c == ' '; };
        auto is_d = [](char c) { return c == ' ' || c == '\t'; };
        for (int via = 0; via < 2; via++)
        {
            const char *how = via ? "string_view" : "std::string";
            Str sig = via ? ".via_string_view" : ".via_std_string";
            if (nul)
                sig += ".nul_in_input";
            std::string_view sv(s);
            mc::crash_context("C19.buffer_conversion.memory");
            igris::buffer b = via ? igris::buffer(sv) : igris::buffer(s);
            Toks t1 = via ? igris::split(sv, ' ') : igris::split(s, ' ');
            Toks t2 = via ? igris::split(sv, " \t") : igris::split(s, " \t");
            Toks t3 = via ? igris::split_cmdargs(sv) : igris::split_cmdargs(s);
            Str t4 = via ? w_trim_sv(sv) : w_trim_s(s);
            mc::crash_context("C19.harness");
            mc::outcome(mc::fmt("conv size=%zu", b.size()));
            if (b.size() != s.size() || b.data() != s.data())
                mc::violation("C19.buffer.size" + sig, "igris::buffer(%s %s): size %zu, the string has %zu bytes", how, esc(s).c_str(),
                              b.size(), s.size());
            if (t1 != ref_split(s, is_sp))
                mc::violation("C19.split_char.value" + sig, "split(%s %s, ' ') = %s", how, esc(s).c_str(), esc(t1).c_str());
            if (t2 != ref_split(s, is_d))
                mc::violation("C19.split_delims.value" + sig, "split(%s %s, \" \\t\") = %s", how, esc(s).c_str(), esc(t2).c_str());
            if (t3 != ref_cmdargs(s))
                mc::violation("C19.split_cmdargs.value" + sig, "split_cmdargs(%s %s) = %s", how, esc(s).c_str(), esc(t3).c_str());
            if (t4 != ref_trim(s))
                mc::violation("C19.trim.value" + sig, "trim(%s %s) = %s", how, esc(s).c_str(), esc(t4).c_str());
        }
        mc::more_cases(9, nul ? 9 : 0);
    });

    // ---------------------------------------------------------------- arguments that alias each other
    // A needle / pattern / replacement may be a piece of the haystack / input itself (all are const): every slice
    // [off, off+len) of every haystack of length 0..6 (thorough 7) over {a,b,NUL} as the needle of igris_memmem, and as
    // pattern x replacement (slices of length <= 3 / <= 2) of replace_substrings with a fitting, an exact and a cutting maxsize.
    mc::add_check("aliasing_arguments", [] {
        g_sfx = ".aliasing";
        static const char AB0[3] = {'a', 'b', '\0'};
        Str h = enum_str(AB0, 3, mc::thorough() ? 7 : 6, 4);
        mc::describe("memmem / replace_substrings with needle, pattern and replacement taken from INSIDE the input %s (every offset and length)",
                     esc(h).c_str());
        long n = 0, nt = 0;
        for (size_t off = 0; off < h.size(); off++)
            for (size_t len = 1; off + len <= h.size(); len++)
            {
                Str nd = h.substr(off, len);
                long want = ref_memmem(h, nd);
                {
                    PL hb(h, 0);
                    hb.freeze();
                    mc::crash_context("C19.memmem.memory.aliasing");
                    char *g = (char *)igris_memmem(hb.p, hb.n, hb.p + off, len);
                    mc::crash_context("C19.harness");
                    long got = g ? (long)(g - hb.p) : -1;
                    n++;
                    if (want != (long)off)
                        nt++; // an earlier occurrence than the needle's own position
                    if (got != want)
                        mc::violation("C19.memmem.value.aliasing", "igris_memmem(%s, needle = haystack+%zu len %zu) = %ld, first occurrence is %ld",
                                      esc(h).c_str(), off, len, got, want);
                }
                if (len > 3)
                    continue;
                for (size_t roff = 0; roff < h.size(); roff++)
                    for (size_t rlen = 0; rlen <= 2 && roff + rlen <= h.size(); rlen++)
                    {
                        Str rep = h.substr(roff, rlen), full = ref_replace(h, nd, rep);
                        size_t need = full.size() + 1;
                        size_t sizes[3] = {need + 2, need, need > 2 ? need - 2 : 1};
                        for (size_t maxsize : sizes)
                        {
                            PL in(h, 0);
                            in.freeze();
                            Exact out(maxsize, 3);
                            mc::crash_context("C19.replace_substrings.memory.aliasing");
                            replace_substrings(out.p, maxsize, in.p, in.n, in.p + off, len, in.p + roff, rlen);
                            mc::crash_context("C19.harness");
                            size_t k = std::min(maxsize - 1, full.size());
                            n++;
                            if (memcmp(out.p, full.data(), k) != 0 || out.p[k] != 0)
                                mc::violation("C19.replace_substrings.value.aliasing",
                                              "replace_substrings(%s, sub = input+%zu len %zu, rep = input+%zu len %zu, maxsize=%zu) = %s, want %s",
                                              esc(h).c_str(), off, len, roff, rlen, maxsize, esc(Str(out.p, k + 1)).c_str(), esc(full.substr(0, k)).c_str());
                        }
                    }
            }
        mc::outcome(mc::fmt("aliasing slices=%ld", n > 20 ? 20 : n));
        if (nt)
            mc::nontrivial();
        if (n > 1)
            mc::more_cases((uint64_t)n - 1, (uint64_t)(nt ? nt - 1 : 0));
    });
}
