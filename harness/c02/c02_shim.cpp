// C02 — compat/std/map and compat/std/set: the classes an embedded build gets under the names
// std::map / std::set (derived from flat_map / flat_set; the only code they add is map's
// initializer-list constructor). The host <map>/<set> cannot be included next to them, so the
// reference here is RefMap alone — the same RefMap that c02_main cross-checks against the real
// std::map on every transition of the same alphabet.
#include "c02_flat.hpp"
#include <compat/std/map>
#include <compat/std/set>

MC_INIT
{
    mc::add_bfs("compat_std_map", [] {
        return std::unique_ptr<mc::Model>(new c02::MapModel<std::map<int, int>, c02::NoStdMap>("compat_std_map", mc::thorough() ? 3 : 2, 3, true));
    });
    mc::add_bfs("compat_std_set", [] {
        return std::unique_ptr<mc::Model>(new c02::SetModel<std::set<int>, c02::NoStdSet, false>("compat_std_set", mc::thorough() ? 4 : 3));
    });
}
MC_MAIN
