// C02 — compat/std/map and compat/std/set: the classes an embedded build gets under the names
// std::map / std::set (derived from flat_map / flat_set; the only code they add is map's
// initializer-list constructor). The host <map>/<set> cannot be included next to them, so the
// reference here is RefMap alone — the same RefMap that c02_main cross-checks against the real
// std::map on every transition of the same alphabet.
#include "c02_flat.hpp"
#include "c02_flat_large.hpp"
#include <compat/std/map>
#include <compat/std/set>

namespace
{
    template <class Cmp> void register_shims(const std::string &suffix)
    {
        std::string mn = "compat_std_map" + suffix, sn = "compat_std_set" + suffix;
        mc::add_bfs(mn, [mn] { return std::unique_ptr<mc::Model>(new c02::MapModel<std::map<int, int, Cmp>, c02::NoStdMap, Cmp>(mn, mc::thorough() ? 3 : 2, 3, true)); });
        mc::add_bfs(sn, [sn] { return std::unique_ptr<mc::Model>(new c02::SetModel<std::set<int, Cmp>, c02::NoStdSet, false, Cmp>(sn, mc::thorough() ? 4 : 3)); });
        mc::add_check(mn + "_large", [mn] { c02::large_map_body<std::map<int, int, Cmp>, c02::NoStdMap, Cmp>(mn); });
        mc::add_check(mn + "_long_history", [mn] { c02::map_long_history_body<std::map<int, int, Cmp>, c02::NoStdMap, Cmp>(mn); });
        mc::add_check(mn + "_long_initlist", [mn] { c02::long_initlist_body<std::map<int, int, Cmp>, c02::NoStdMap, Cmp>(mn); });
        mc::add_check(sn + "_large", [sn] { c02::large_set_body<std::set<int, Cmp>, c02::NoStdSet, Cmp>(sn); });
    }
}
MC_INIT
{
    register_shims<std::less<int>>("");
    register_shims<std::greater<int>>("_greater");
    register_shims<c02::HalfLess>("_half_less");
    mc::add_check("compat_std_map_record_key", [] { c02::rec_key_body<std::map<c02::Rec, int>, c02::NoStdRec>("compat_std_map"); });
}
MC_MAIN
