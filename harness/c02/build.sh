#!/bin/bash
set -e
. $MC/par.sh
H=$VERIF/harness/c02
TT=0; [ "$TIER" = thorough ] && TT=1
CF="-DTIER_THOROUGH=$TT -std=c++20 -O2 -g1 -fsanitize=address -fno-omit-frame-pointer -I$REPO -I$MC -I$H"
# std_portable.h: vector::erase(first,last) calls a three-argument igris::move that the header may not
# provide (it then cannot be instantiated at all); probe, and leave the operation out if so.
cat > $BUILD/probe.cpp <<'EOP'
#include <igris/container/std_portable.h>
void f(igris::vector<int> &v) { v.erase(v.begin(), v.begin()); }
EOP
if g++ -std=c++20 -fsyntax-only -I$REPO $BUILD/probe.cpp 2>/dev/null; then TW=1; else TW=0; fi
par g++ -c $CF $H/c02_main.cpp -o $BUILD/main.o
par g++ -c $CF $H/c02_main_large.cpp -o $BUILD/main_large.o
par g++ -c $CF -Wno-return-local-addr $H/c02_main_flat.cpp -o $BUILD/main_flat.o
par g++ -c $CF -DTWIN_HAS_ERASE_RANGE=$TW $H/c02_twin.cpp -o $BUILD/twin.o
par g++ -c $CF -Wno-return-local-addr $H/c02_shim.cpp -o $BUILD/shim.o
# flat_map / flat_set over igris::vector: they may legitimately use a std::vector member igris::vector does not
# have (then an embedded build could not compile them either - not a statement of this property); the run is
# left out instead of failing the whole build
par sh -c "g++ -c $CF -Wno-return-local-addr $H/c02_flatvec.cpp -o $BUILD/flatvec.o 2>$BUILD/flatvec.log || { rm -f $BUILD/flatvec.o; echo 'note: flat_map/flat_set do not compile over igris::vector; run flat_on_igris_vector skipped'; }"
# second build of the vector TUs: the other compiler (argument evaluation order, folding) at -O2 and with
# -DNDEBUG (an assert that carries a side effect vanishes); it re-runs a representative selection
CFC="-DTIER_THOROUGH=$TT -DNDEBUG -std=c++20 -O2 -g1 -fsanitize=address -fno-omit-frame-pointer -I$REPO -I$MC -I$H"
par clang++ -c $CFC $H/c02_main.cpp -o $BUILD/main_clang.o
par clang++ -c $CFC $H/c02_main_large.cpp -o $BUILD/main_large_clang.o
par clang++ -c $CFC -DTWIN_HAS_ERASE_RANGE=$TW $H/c02_twin.cpp -o $BUILD/twin_clang.o
par g++ -std=c++20 -O2 -c -I$MC $MC/mc.cpp -o $BUILD/mc.o
parwait
par clang++ -fsanitize=address $BUILD/main_clang.o $BUILD/main_large_clang.o $BUILD/mc.o -o $BUILD/c02_main_clang
par clang++ -fsanitize=address $BUILD/twin_clang.o $BUILD/mc.o -o $BUILD/c02_twin_clang
par g++ -fsanitize=address $BUILD/main.o $BUILD/main_large.o $BUILD/main_flat.o $BUILD/mc.o -o $BUILD/c02_main
par g++ -fsanitize=address $BUILD/twin.o $BUILD/mc.o -o $BUILD/c02_twin
par g++ -fsanitize=address $BUILD/shim.o $BUILD/mc.o -o $BUILD/c02_shim
[ -f $BUILD/flatvec.o ] && par g++ -fsanitize=address $BUILD/flatvec.o $BUILD/mc.o -o $BUILD/c02_flatvec
parwait
# one run per group of sub-checks: the driver gives every run an equal share of the deadline
{
echo "vector_int $BUILD/c02_main --only vector_int"
echo "vector_tracked $BUILD/c02_main --only vector_tracked"
echo "vector_3values $BUILD/c02_main --only vector_3values"
echo "flat $BUILD/c02_main --only flat_"
echo "vector_large $BUILD/c02_main --only large_"
echo "vector_extra $BUILD/c02_main --only extra_"
echo "portable_vector_int $BUILD/c02_twin --only vector_int"
echo "portable_vector_tracked $BUILD/c02_twin --only vector_tracked"
echo "portable_vector_3values $BUILD/c02_twin --only vector_3values"
echo "portable_vector_large $BUILD/c02_twin --only large_"
echo "portable_vector_extra $BUILD/c02_twin --only extra_"
echo "vector_clang_ndebug $BUILD/c02_main_clang --only vector_tracked,extra_,large_vec_tracked"
echo "portable_vector_clang_ndebug $BUILD/c02_twin_clang --only vector_tracked,extra_,large_portable_vec_tracked"
echo "compat_shims $BUILD/c02_shim"
[ -f $BUILD/flatvec.o ] && echo "flat_on_igris_vector $BUILD/c02_flatvec"
true
} > $BUILD/runs.txt
