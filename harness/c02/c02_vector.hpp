// c02_vector.hpp — BFS model for igris::vector (vector.h) and its std_portable.h twin.
// Included by c02_main.cpp (vector.h) and c02_twin.cpp (std_portable.h) — the two headers
// define the same class name and cannot share a TU / executable.
//
// Universe: two vectors A, B of element type T over TrackAlloc<T>, mirrored by std::vector<int>.
// State key: (contents, capacity, data()==nullptr) of A and B (+ mirror contents).
#pragma once
#include "mc.hpp"
#include "single_pass.hpp"
#include "tracked.hpp"
#include <algorithm>
#include <iterator>
#include <list>
#include <map>
#include <memory>
#include <tuple>
#include <stdexcept>
#include <string>
#include <vector>

namespace c02
{
    using std::string;
    using trk::Tracked;
    using trk::TrackAlloc;
    using trk::value_of;

    struct Box
    {
        int L, C, NV;
    };
    inline Box box()
    {
        return mc::thorough() ? Box{4, 5, 2} : Box{3, 4, 2};
    }
    inline Box box_wide() // three values, shorter: sorted insertion / comparison need a middle value
    {
        return mc::thorough() ? Box{3, 4, 3} : Box{2, 3, 3};
    }

    inline string vstr(const std::vector<int> &v)
    {
        string s = "[";
        for (size_t i = 0; i < v.size(); i++)
            s += mc::fmt("%s%d", i ? "," : "", v[i]);
        return s + "]";
    }

    enum Kind
    {
        K_PUSH_BACK,
        K_EMPLACE_BACK,
        K_INSERT,       // insert(const_iterator, const T&)
        K_INSERT_INDEX, // insert(int, const T&)
        K_EMPLACE,
        K_INSERT_RANGE_OWN,   // insert(pos, begin()+f, begin()+l)
        K_INSERT_RANGE_OTHER, // insert(pos, Y.begin()+f, Y.begin()+l)
        K_INSERT_SORTED,
        K_ERASE_RANGE,
        K_ERASE_ONE,
        K_POP_BACK,
        K_RESIZE,
        K_RESERVE,
        K_CLEAR,
        K_INVALIDATE,
        K_REBUILD_DEFAULT, // destroy X, default-construct
        K_COPY_CTOR,       // X = new vector(Y), old X destroyed
        K_MOVE_CTOR,
        K_COPY_ASSIGN,
        K_SELF_ASSIGN,
        K_MOVE_ASSIGN,
        K_CTOR_IL_CONST,
        K_CTOR_IL_RVALUE,
        K_CTOR_RANGE_TMPL, // template <I,O> vector(I,O), I = const T* / list iterator
        K_CTOR_RANGE_LIST,
        K_CTOR_RANGE_PTR, // vector(iterator, const iterator)
        K_CTOR_COUNT,
        K_PUSH_BACK_ALIAS, // push_back(X[i])
        K_EMPLACE_BACK_ALIAS,
        K_INSERT_ALIAS, // insert(pos, X[i])
        K_EMPLACE_ALIAS,
        K_AT_OUT_OF_RANGE, // observer with an exception: its own (state-preserving) operation, run once per state
        // value-category variants of every operation that takes an element (appended: earlier indices keep their meaning)
        K_PUSH_BACK_RVALUE,         // push_back(T(v))
        K_PUSH_BACK_MOVED,          // T t(v); push_back(std::move(t))
        K_EMPLACE_BACK_RVALUE_ELEM, // emplace_back(T(v))
        K_EMPLACE_BACK_LVALUE_ELEM, // T t(v); emplace_back(t)
        K_INSERT_RVALUE,            // insert(pos, T(v))
        K_INSERT_MOVED,             // insert(pos, std::move(t))
        K_INSERT_INDEX_RVALUE,      // insert(int, T(v))
        K_EMPLACE_RVALUE_ELEM,      // emplace(pos, T(v))
        K_EMPLACE_LVALUE_ELEM,      // emplace(pos, t)
        K_INSERT_SORTED_RVALUE,     // insert_sorted(T(v))
        K_CTOR_RANGE_MOVE_ITER,     // vector(std::make_move_iterator(first), std::make_move_iterator(last))
        K_CTOR_RANGE_INPUT_ITER,    // vector(single-pass input iterator pair), see single_pass.hpp
        K_NKINDS
    };
    inline const char *kname(int k)
    {
        static const char *n[] = {"push_back", "emplace_back", "insert", "insert_index", "emplace", "insert_range_own",
                                  "insert_range_other", "insert_sorted", "erase_range", "erase_one", "pop_back", "resize",
                                  "reserve", "clear", "invalidate", "destroy_and_default_ctor", "copy_ctor", "move_ctor",
                                  "copy_assign", "self_assign", "move_assign", "ctor_initlist_const", "ctor_initlist_rvalue",
                                  "ctor_range_template", "ctor_range_list_iterator", "ctor_range_pointer", "ctor_count",
                                  "push_back_own_element", "emplace_back_own_element", "insert_own_element", "emplace_own_element", "at_out_of_range",
                                  "push_back_rvalue", "push_back_moved", "emplace_back_rvalue_element", "emplace_back_lvalue_element", "insert_rvalue",
                                  "insert_moved", "insert_index_rvalue", "emplace_rvalue_element", "emplace_lvalue_element", "insert_sorted_rvalue",
                                  "ctor_range_move_iterator", "ctor_range_input_iterator"};
        return n[k];
    }

    // Tr: struct { template<class T> using vec = ...; static const char* name; has_at, has_less, has_sorted, has_il }
    template <class Tr, class T> struct VecModel : mc::Model
    {
        using Vec = typename Tr::template vec<T>;
        struct Op
        {
            int kind, x, a, b, c;
        };
        struct Tables
        {
            std::vector<Op> ops;
            std::vector<std::vector<int>> lists; // constructor arguments
            mutable std::vector<string> names;   // opname cache (the engine asks for every op of every state)
        };
        Box bx;
        string variant;
        std::shared_ptr<const Tables> tab;
        const std::vector<Op> &ops;
        const std::vector<std::vector<int>> &lists;
        trk::Registry reg;
        Vec *obj[2] = {nullptr, nullptr};
        std::vector<int> ref[2];
        static constexpr bool tracked = std::is_same<T, Tracked>::value;

        // the alphabet depends only on the box: built once per process
        static std::shared_ptr<const Tables> tables(Box bx)
        {
            static std::map<std::tuple<int, int, int>, std::shared_ptr<const Tables>> cache;
            auto &slot = cache[std::make_tuple(bx.L, bx.C, bx.NV)];
            if (slot)
                return slot;
            auto t = std::make_shared<Tables>();
            auto &ops = t->ops;
            auto &lists = t->lists;
            // all value lists of length 0..L
            lists.push_back({});
            for (size_t i = 0; i < lists.size(); i++)
                if ((int)lists[i].size() < bx.L)
                    for (int v = 0; v < bx.NV; v++)
                    {
                        auto l = lists[i];
                        l.push_back(v);
                        lists.push_back(l);
                    }
            const int L = bx.L;
            for (int x = 0; x < 2; x++)
            {
                for (int v = 0; v < bx.NV; v++)
                {
                    ops.push_back({K_PUSH_BACK, x, v, 0, 0});
                    ops.push_back({K_EMPLACE_BACK, x, v, 0, 0});
                    if (Tr::has_sorted)
                        ops.push_back({K_INSERT_SORTED, x, v, 0, 0});
                    for (int p = 0; p <= L; p++)
                    {
                        ops.push_back({K_INSERT, x, p, v, 0});
                        if (v == bx.NV - 1) // forwards to insert(const_iterator, const T&)
                            ops.push_back({K_INSERT_INDEX, x, p, v, 0});
                        ops.push_back({K_EMPLACE, x, p, v, 0});
                    }
                }
                for (int p = 0; p <= L; p++)
                    for (int f = 0; f <= L; f++)
                        for (int l = f; l <= L; l++)
                        {
                            ops.push_back({K_INSERT_RANGE_OWN, x, p, f, l});
                            ops.push_back({K_INSERT_RANGE_OTHER, x, p, f, l});
                        }
                for (int f = 0; f <= L; f++)
                    for (int l = f; l <= L; l++)
                        if (Tr::has_erase_range)
                            ops.push_back({K_ERASE_RANGE, x, f, l, 0});
                for (int p = 0; p < L; p++)
                    ops.push_back({K_ERASE_ONE, x, p, 0, 0});
                ops.push_back({K_POP_BACK, x, 0, 0, 0});
                for (int n = 0; n <= L; n++)
                    ops.push_back({K_RESIZE, x, n, 0, 0});
                for (int n = 0; n <= bx.C; n++)
                    ops.push_back({K_RESERVE, x, n, 0, 0});
                for (int k : {K_CLEAR, K_INVALIDATE, K_REBUILD_DEFAULT, K_COPY_CTOR, K_MOVE_CTOR, K_COPY_ASSIGN, K_SELF_ASSIGN, K_MOVE_ASSIGN})
                    ops.push_back({k, x, 0, 0, 0});
                for (int i = 0; i < (int)lists.size(); i++)
                {
                    if (Tr::has_il)
                    {
                        ops.push_back({K_CTOR_IL_CONST, x, i, 0, 0});
                        ops.push_back({K_CTOR_IL_RVALUE, x, i, 0, 0});
                    }
                    // the range constructors treat every element alike: one list per (length, first value),
                    // values cycling through the alphabet
                    bool cyc = true;
                    for (size_t j = 1; j < lists[i].size(); j++)
                        if (lists[i][j] != (lists[i][j - 1] + 1) % bx.NV)
                            cyc = false;
                    if (!cyc)
                        continue;
                    ops.push_back({K_CTOR_RANGE_TMPL, x, i, 0, 0});
                    ops.push_back({K_CTOR_RANGE_PTR, x, i, 0, 0});
                    if (Tr::has_list_range)
                        ops.push_back({K_CTOR_RANGE_LIST, x, i, 0, 0});
                }
                for (int n = 0; n <= L; n++)
                    ops.push_back({K_CTOR_COUNT, x, n, 0, 0});
                if (Tr::has_at)
                    ops.push_back({K_AT_OUT_OF_RANGE, x, 0, 0, 0});
                for (int i = 0; i < L; i++)
                {
                    ops.push_back({K_PUSH_BACK_ALIAS, x, i, 0, 0});
                    ops.push_back({K_EMPLACE_BACK_ALIAS, x, i, 0, 0});
                    for (int p = 0; p <= L; p++)
                    {
                        ops.push_back({K_INSERT_ALIAS, x, p, i, 0});
                        ops.push_back({K_EMPLACE_ALIAS, x, p, i, 0});
                    }
                }
            }
            // appended after everything else so that the indices of the operations above never change
            for (int x = 0; x < 2; x++)
            {
                for (int v = 0; v < bx.NV; v++)
                {
                    for (int k : {K_PUSH_BACK_RVALUE, K_PUSH_BACK_MOVED, K_EMPLACE_BACK_RVALUE_ELEM, K_EMPLACE_BACK_LVALUE_ELEM})
                        ops.push_back({k, x, v, 0, 0});
                    if (Tr::has_sorted)
                        ops.push_back({K_INSERT_SORTED_RVALUE, x, v, 0, 0});
                    for (int p = 0; p <= L; p++)
                    {
                        for (int k : {K_INSERT_RVALUE, K_INSERT_MOVED, K_EMPLACE_RVALUE_ELEM, K_EMPLACE_LVALUE_ELEM})
                            ops.push_back({k, x, p, v, 0});
                        if (v == bx.NV - 1)
                            ops.push_back({K_INSERT_INDEX_RVALUE, x, p, v, 0});
                    }
                }
                if (Tr::has_list_range) // needs std iterator categories
                    for (int i = 0; i < (int)lists.size(); i++)
                    {
                        bool cyc = true;
                        for (size_t j = 1; j < lists[i].size(); j++)
                            if (lists[i][j] != (lists[i][j - 1] + 1) % bx.NV)
                                cyc = false;
                        if (cyc)
                            ops.push_back({K_CTOR_RANGE_MOVE_ITER, x, i, 0, 0});
                    }
            }
            for (int x = 0; x < 2; x++) // appended later still
                if (Tr::has_list_range)
                    for (int i = 0; i < (int)lists.size(); i++)
                    {
                        bool cyc = true;
                        for (size_t j = 1; j < lists[i].size(); j++)
                            if (lists[i][j] != (lists[i][j - 1] + 1) % bx.NV)
                                cyc = false;
                        if (cyc)
                            ops.push_back({K_CTOR_RANGE_INPUT_ITER, x, i, 0, 0});
                    }
            slot = t;
            return slot;
        }

        VecModel(Box b, const string &var) : bx(b), variant(var), tab(tables(b)), ops(tab->ops), lists(tab->lists)
        {
            reg.prop = "C02";
            trk::Use u(reg);
            obj[0] = new Vec();
            obj[1] = new Vec();
        }
        ~VecModel()
        {
            trk::Use u(reg);
            reg.mute = true;
            delete obj[0];
            delete obj[1];
        }
        int nops() override { return (int)ops.size(); }
        bool recreates(int o) const // the operation destroys an object and builds a new one in its place
        {
            int k = ops[o].kind;
            return k == K_REBUILD_DEFAULT || k == K_COPY_CTOR || k == K_MOVE_CTOR || (k >= K_CTOR_IL_CONST && k <= K_CTOR_COUNT) || k == K_CTOR_RANGE_MOVE_ITER || k == K_CTOR_RANGE_INPUT_ITER;
        }
        string opname(int o) override
        {
            if (tab->names.empty())
                tab->names.resize(ops.size());
            if (tab->names[o].empty())
                tab->names[o] = opname_(o);
            return tab->names[o];
        }
        string opname_(int o)
        {
            const Op &p = ops[o];
            const char *X = p.x ? "B" : "A", *Y = p.x ? "A" : "B";
            switch (p.kind)
            {
            case K_PUSH_BACK:
            case K_EMPLACE_BACK:
            case K_INSERT_SORTED:
                return mc::fmt("%s.%s(%d)", X, kname(p.kind), p.a);
            case K_PUSH_BACK_RVALUE:
                return mc::fmt("%s.push_back(T(%d))", X, p.a);
            case K_PUSH_BACK_MOVED:
                return mc::fmt("T t(%d); %s.push_back(std::move(t))", p.a, X);
            case K_EMPLACE_BACK_RVALUE_ELEM:
                return mc::fmt("%s.emplace_back(T(%d))", X, p.a);
            case K_EMPLACE_BACK_LVALUE_ELEM:
                return mc::fmt("T t(%d); %s.emplace_back(t)", p.a, X);
            case K_INSERT_SORTED_RVALUE:
                return mc::fmt("%s.insert_sorted(T(%d))", X, p.a);
            case K_INSERT_RVALUE:
                return mc::fmt("%s.insert(begin+%d, T(%d))", X, p.a, p.b);
            case K_INSERT_MOVED:
                return mc::fmt("T t(%d); %s.insert(begin+%d, std::move(t))", p.b, X, p.a);
            case K_INSERT_INDEX_RVALUE:
                return mc::fmt("%s.insert((int)%d, T(%d))", X, p.a, p.b);
            case K_EMPLACE_RVALUE_ELEM:
                return mc::fmt("%s.emplace(begin+%d, T(%d))", X, p.a, p.b);
            case K_EMPLACE_LVALUE_ELEM:
                return mc::fmt("T t(%d); %s.emplace(begin+%d, t)", p.b, X, p.a);
            case K_CTOR_RANGE_MOVE_ITER:
            case K_CTOR_RANGE_INPUT_ITER:
                return mc::fmt("%s' = %s(%s); old %s destroyed", X, kname(p.kind), vstr(lists[p.a]).c_str(), X);
            case K_INSERT:
            case K_EMPLACE:
                return mc::fmt("%s.%s(begin+%d, %d)", X, kname(p.kind), p.a, p.b);
            case K_INSERT_INDEX:
                return mc::fmt("%s.insert((int)%d, %d)", X, p.a, p.b);
            case K_INSERT_RANGE_OWN:
                return mc::fmt("%s.insert(begin+%d, %s.begin+%d, %s.begin+%d)", X, p.a, X, p.b, X, p.c);
            case K_INSERT_RANGE_OTHER:
                return mc::fmt("%s.insert(begin+%d, %s.begin+%d, %s.begin+%d)", X, p.a, Y, p.b, Y, p.c);
            case K_ERASE_RANGE:
                return mc::fmt("%s.erase(begin+%d, begin+%d)", X, p.a, p.b);
            case K_ERASE_ONE:
                return mc::fmt("%s.erase(begin+%d)", X, p.a);
            case K_RESIZE:
            case K_RESERVE:
                return mc::fmt("%s.%s(%d)", X, kname(p.kind), p.a);
            case K_POP_BACK:
            case K_CLEAR:
            case K_INVALIDATE:
                return mc::fmt("%s.%s()", X, kname(p.kind));
            case K_REBUILD_DEFAULT:
                return mc::fmt("%s.~vector(); new(%s) vector()", X, X);
            case K_COPY_CTOR:
                return mc::fmt("%s' = vector(%s); old %s destroyed", X, Y, X);
            case K_MOVE_CTOR:
                return mc::fmt("%s' = vector(std::move(%s)); old %s destroyed", X, Y, X);
            case K_COPY_ASSIGN:
                return mc::fmt("%s = %s", X, Y);
            case K_SELF_ASSIGN:
                return mc::fmt("%s = %s", X, X);
            case K_MOVE_ASSIGN:
                return mc::fmt("%s = std::move(%s)", X, Y);
            case K_CTOR_IL_CONST:
            case K_CTOR_IL_RVALUE:
            case K_CTOR_RANGE_TMPL:
            case K_CTOR_RANGE_PTR:
            case K_CTOR_RANGE_LIST:
                return mc::fmt("%s' = %s(%s); old %s destroyed", X, kname(p.kind), vstr(lists[p.a]).c_str(), X);
            case K_CTOR_COUNT:
                return mc::fmt("%s' = vector(%d); old %s destroyed", X, p.a, X);
            case K_PUSH_BACK_ALIAS:
                return mc::fmt("%s.push_back(%s[%d])", X, X, p.a);
            case K_EMPLACE_BACK_ALIAS:
                return mc::fmt("%s.emplace_back(%s[%d])", X, X, p.a);
            case K_INSERT_ALIAS:
                return mc::fmt("%s.insert(begin+%d, %s[%d])", X, p.a, X, p.b);
            case K_EMPLACE_ALIAS:
                return mc::fmt("%s.emplace(begin+%d, %s[%d])", X, p.a, X, p.b);
            case K_AT_OUT_OF_RANGE:
                return mc::fmt("%s.at(size()), const %s.at(size())", X, X);
            }
            return "?";
        }

        // the caller's named initializer_list is const: it must read the same after the construction
        void il_unchanged(const std::initializer_list<T> &il, const std::vector<int> &v)
        {
            size_t k = 0;
            for (const T &e : il)
            {
                bool alive = !tracked || reg.state(std::addressof(e)) == trk::ALIVE;
                if (!alive || value_of(e) != v[k])
                    bad("ctor_initlist_const", "source_list_modified", mc::fmt("element %zu of the caller's initializer_list is %s with value %d after the construction, it was %d", k,
                                                                              alive ? "alive" : "moved-from", value_of(e), v[k]));
                k++;
            }
        }
        // -------------------------------------------------- initializer lists of run-time length
        template <bool RV> Vec *make_il(const std::vector<int> &v)
        {
            if constexpr (Tr::has_il)
            {
#define IL_CASE(n, ...)                                                                                                \
    case n:                                                                                                            \
    {                                                                                                                  \
        if (RV)                                                                                                        \
            return new Vec(std::initializer_list<T>{__VA_ARGS__});                                                     \
        const std::initializer_list<T> il = {__VA_ARGS__};                                                             \
        Vec *nv = new Vec(il);                                                                                         \
        il_unchanged(il, v);                                                                                           \
        return nv;                                                                                                     \
    }
                switch (v.size())
                {
                case 0:
                {
                    if (RV)
                        return new Vec(std::initializer_list<T>{});
                    const std::initializer_list<T> il = {};
                    return new Vec(il);
                }
                    IL_CASE(1, T(v[0]))
                    IL_CASE(2, T(v[0]), T(v[1]))
                    IL_CASE(3, T(v[0]), T(v[1]), T(v[2]))
                    IL_CASE(4, T(v[0]), T(v[1]), T(v[2]), T(v[3]))
                    IL_CASE(5, T(v[0]), T(v[1]), T(v[2]), T(v[3]), T(v[4]))
                }
#undef IL_CASE
            }
            mc::harness_error("make_il: unsupported length %zu", v.size());
        }

        void replace(int x, Vec *nv)
        {
            Vec *old = obj[x];
            obj[x] = nv;
            reg.ctx = variant + ".destructor";
            delete old;
        }
        void ctx(const char *op, const char *cls = nullptr)
        {
            string c = variant + "." + op;
            if (cls && *cls)
                c += string(".") + cls;
            reg.begin_op(c);
            mc::crash_context("C02.%s.crash", c.c_str());
        }

        bool apply(int o) override
        {
            fflush(nullptr); // the engine's successor records must be on disk before code that may abort the worker runs
            trk::Use u(reg);
            const Op p = ops[o];
            Vec &X = *obj[p.x], &Y = *obj[1 - p.x];
            std::vector<int> &mx = ref[p.x], &my = ref[1 - p.x];
            const int n = (int)mx.size(), ny = (int)my.size(), L = bx.L;
            // the class strings describe the input relative to the state (they go into signatures)
            bool grow1 = X.capacity() < (size_t)n + 1;
            auto poscls = [&](int pos, bool grow) {
                return string(pos < n ? "mid" : "end") + (grow ? "_grow" : "_fit");
            };
            switch (p.kind)
            {
            case K_PUSH_BACK:
            case K_EMPLACE_BACK:
            case K_PUSH_BACK_RVALUE:
            case K_PUSH_BACK_MOVED:
            case K_EMPLACE_BACK_RVALUE_ELEM:
            case K_EMPLACE_BACK_LVALUE_ELEM:
                if (n + 1 > L)
                    return leave_box();
                ctx(kname(p.kind), grow1 ? "grow" : "fit");
                if (grow1)
                    mc::nontrivial();
                if (p.kind == K_PUSH_BACK)
                {
                    T t(p.a);
                    X.push_back(t);
                }
                else if (p.kind == K_PUSH_BACK_RVALUE)
                    X.push_back(T(p.a));
                else if (p.kind == K_PUSH_BACK_MOVED)
                {
                    T t(p.a);
                    X.push_back(std::move(t));
                }
                else if (p.kind == K_EMPLACE_BACK_RVALUE_ELEM)
                    X.emplace_back(T(p.a));
                else if (p.kind == K_EMPLACE_BACK_LVALUE_ELEM)
                {
                    T t(p.a);
                    X.emplace_back(t);
                }
                else
                    X.emplace_back(p.a);
                mx.push_back(p.a);
                break;
            case K_INSERT_SORTED:
            case K_INSERT_SORTED_RVALUE:
                if constexpr (Tr::has_sorted)
                {
                    if (n + 1 > L)
                        return leave_box();
                    if (!std::is_sorted(mx.begin(), mx.end()))
                        return false;
                    ctx(kname(p.kind), grow1 ? "grow" : "fit");
                    mc::nontrivial();
                    if (p.kind == K_INSERT_SORTED_RVALUE)
                        X.insert_sorted(T(p.a));
                    else
                    {
                        T t(p.a);
                        X.insert_sorted(t);
                    }
                    mx.insert(std::upper_bound(mx.begin(), mx.end(), p.a), p.a);
                    break;
                }
                return false;
            case K_INSERT:
            case K_INSERT_INDEX:
            case K_EMPLACE:
            case K_INSERT_RVALUE:
            case K_INSERT_MOVED:
            case K_INSERT_INDEX_RVALUE:
            case K_EMPLACE_RVALUE_ELEM:
            case K_EMPLACE_LVALUE_ELEM:
            {
                if (p.a > n)
                    return false;
                if (n + 1 > L)
                    return leave_box();
                ctx(kname(p.kind), poscls(p.a, grow1).c_str());
                if (p.a < n)
                    mc::nontrivial();
                T t(p.b);
                typename Vec::iterator it;
                typename Vec::const_iterator at = (typename Vec::const_iterator)(X.data() + p.a);
                if (p.kind == K_INSERT)
                    it = X.insert(at, t);
                else if (p.kind == K_INSERT_INDEX)
                    it = X.insert((int)p.a, t);
                else if (p.kind == K_INSERT_RVALUE)
                    it = X.insert(at, T(p.b));
                else if (p.kind == K_INSERT_MOVED)
                    it = X.insert(at, std::move(t));
                else if (p.kind == K_INSERT_INDEX_RVALUE)
                    it = X.insert((int)p.a, T(p.b));
                else if (p.kind == K_EMPLACE_RVALUE_ELEM)
                    it = X.emplace(at, T(p.b));
                else if (p.kind == K_EMPLACE_LVALUE_ELEM)
                    it = X.emplace(at, t);
                else
                    it = X.emplace(at, p.b);
                if (it != X.data() + p.a)
                    mc::violation(mc::fmt("C02.%s.%s.return_value", variant.c_str(), kname(p.kind)), "returned iterator is begin()+%ld, expected begin()+%d",
                                  (long)(it - X.data()), p.a);
                mx.insert(mx.begin() + p.a, p.b);
                break;
            }
            case K_INSERT_ALIAS:
            case K_EMPLACE_ALIAS:
            {
                if (p.a > n || p.b >= n)
                    return false;
                if (n + 1 > L)
                    return leave_box();
                ctx(kname(p.kind), poscls(p.a, grow1).c_str());
                mc::nontrivial();
                int v = mx[p.b];
                if (p.kind == K_INSERT_ALIAS)
                    X.insert((typename Vec::const_iterator)(X.data() + p.a), X[p.b]);
                else
                    X.emplace((typename Vec::const_iterator)(X.data() + p.a), X[p.b]);
                mx.insert(mx.begin() + p.a, v);
                break;
            }
            case K_PUSH_BACK_ALIAS:
            case K_EMPLACE_BACK_ALIAS:
            {
                if (p.a >= n)
                    return false;
                if (n + 1 > L)
                    return leave_box();
                ctx(kname(p.kind), grow1 ? "grow" : "fit");
                mc::nontrivial();
                int v = mx[p.a];
                if (p.kind == K_PUSH_BACK_ALIAS)
                    X.push_back(X[p.a]);
                else
                    X.emplace_back(X[p.a]);
                mx.push_back(v);
                break;
            }
            case K_INSERT_RANGE_OWN:
            {
                if (p.a > n || p.c > n)
                    return false;
                int sz = p.c - p.b;
                if (n + sz > L)
                    return leave_box();
                bool grow = X.capacity() < (size_t)(n + sz);
                ctx(kname(p.kind), (string(sz == 0 ? "empty_" : p.c <= p.a ? "source_before_pos_" : p.b >= p.a ? "source_after_pos_" : "source_spans_pos_") +
                                    poscls(p.a, grow))
                                       .c_str());
                if (sz)
                    mc::nontrivial();
                std::vector<int> part(mx.begin() + p.b, mx.begin() + p.c);
                auto it = X.insert(X.begin() + p.a, (typename Vec::const_iterator)(X.data() + p.b), (typename Vec::const_iterator)(X.data() + p.c));
                if (it != X.data() + p.a)
                    mc::violation(mc::fmt("C02.%s.%s.return_value", variant.c_str(), kname(p.kind)), "returned iterator is begin()+%ld, expected begin()+%d",
                                  (long)(it - X.data()), p.a);
                mx.insert(mx.begin() + p.a, part.begin(), part.end());
                break;
            }
            case K_INSERT_RANGE_OTHER:
            {
                if (p.a > n || p.c > ny)
                    return false;
                int sz = p.c - p.b;
                if (n + sz > L)
                    return leave_box();
                bool grow = X.capacity() < (size_t)(n + sz);
                ctx(kname(p.kind), ((sz == 0 ? string("empty_") : string()) + poscls(p.a, grow)).c_str());
                if (sz)
                    mc::nontrivial();
                std::vector<int> part(my.begin() + p.b, my.begin() + p.c);
                auto it = X.insert(X.begin() + p.a, (typename Vec::const_iterator)(Y.data() + p.b), (typename Vec::const_iterator)(Y.data() + p.c));
                if (it != X.data() + p.a)
                    mc::violation(mc::fmt("C02.%s.%s.return_value", variant.c_str(), kname(p.kind)), "returned iterator is begin()+%ld, expected begin()+%d",
                                  (long)(it - X.data()), p.a);
                mx.insert(mx.begin() + p.a, part.begin(), part.end());
                break;
            }
            case K_ERASE_RANGE:
                if constexpr (Tr::has_erase_range)
                {
                    if (p.b > n)
                        return false;
                    ctx(kname(p.kind), p.a == p.b ? "empty" : p.b == n ? "to_end" : "mid");
                    if (p.a != p.b)
                        mc::nontrivial();
                    X.erase(X.begin() + p.a, X.begin() + p.b);
                    mx.erase(mx.begin() + p.a, mx.begin() + p.b);
                    break;
                }
                return false;
            case K_ERASE_ONE:
                if (p.a >= n)
                    return false;
                ctx(kname(p.kind), p.a == n - 1 ? "last" : "mid");
                mc::nontrivial();
                X.erase(X.begin() + p.a);
                mx.erase(mx.begin() + p.a);
                break;
            case K_POP_BACK:
                if (n == 0)
                    return false; // precondition
                ctx(kname(p.kind));
                X.pop_back();
                mx.pop_back();
                break;
            case K_RESIZE:
                ctx(kname(p.kind), p.a > n ? ((size_t)p.a > X.capacity() ? "longer_grow" : "longer_fit") : p.a < n ? "shorter" : "same");
                if (p.a != n)
                    mc::nontrivial();
                X.resize(p.a);
                mx.resize(p.a);
                break;
            case K_RESERVE:
                ctx(kname(p.kind), (size_t)p.a > X.capacity() ? "grow" : "noop");
                if ((size_t)p.a > X.capacity() && n)
                    mc::nontrivial();
                X.reserve(p.a);
                break;
            case K_CLEAR:
                ctx(kname(p.kind));
                X.clear();
                mx.clear();
                break;
            case K_INVALIDATE:
                ctx(kname(p.kind));
                X.invalidate();
                mx.clear();
                break;
            case K_REBUILD_DEFAULT:
                ctx("destructor");
                if (n)
                    mc::nontrivial();
                delete obj[p.x];
                obj[p.x] = nullptr;
                ctx("default_ctor");
                obj[p.x] = new Vec();
                mx.clear();
                break;
            case K_COPY_CTOR:
            {
                ctx(kname(p.kind), ny ? "nonempty" : "empty");
                if (ny)
                    mc::nontrivial();
                Vec *nv = new Vec(Y);
                replace(p.x, nv);
                mx = my;
                break;
            }
            case K_MOVE_CTOR:
            {
                ctx(kname(p.kind), ny ? "nonempty" : "empty");
                if (ny)
                    mc::nontrivial();
                Vec *nv = new Vec(std::move(Y));
                replace(p.x, nv);
                mx = my;
                my.clear();
                break;
            }
            case K_COPY_ASSIGN:
                ctx(kname(p.kind), ny == 0 ? "from_empty" : ny > n ? "from_longer" : "from_not_longer");
                if (ny || n)
                    mc::nontrivial();
                X = Y;
                mx = my;
                break;
            case K_SELF_ASSIGN:
            {
                ctx(kname(p.kind));
                Vec &alias = X;
                X = alias;
                break;
            }
            case K_MOVE_ASSIGN:
                ctx(kname(p.kind), ny ? "nonempty" : "empty");
                if (ny || n)
                    mc::nontrivial();
                X = std::move(Y);
                mx = my;
                my.clear();
                break;
            case K_CTOR_IL_CONST:
            case K_CTOR_IL_RVALUE:
            {
                const auto &l = lists[p.a];
                ctx(kname(p.kind), l.empty() ? "empty" : "nonempty");
                if (l.size() >= 2)
                    mc::nontrivial();
                Vec *nv = p.kind == K_CTOR_IL_CONST ? make_il<false>(l) : make_il<true>(l);
                replace(p.x, nv);
                mx = l;
                break;
            }
            case K_CTOR_RANGE_TMPL:
            case K_CTOR_RANGE_PTR:
            case K_CTOR_RANGE_LIST:
            case K_CTOR_RANGE_MOVE_ITER:
            case K_CTOR_RANGE_INPUT_ITER:
            {
                const auto &l = lists[p.a];
                ctx(kname(p.kind), l.empty() ? "empty" : "nonempty");
                if (l.size() >= 2)
                    mc::nontrivial();
                Vec *nv;
                if (p.kind == K_CTOR_RANGE_INPUT_ITER)
                {
                    if constexpr (Tr::has_list_range)
                    {
                        sp::Source src; // single pass: whatever walks the range consumes it
                        src.values = l;
                        sp::InputIt<T> first, last;
                        first.src = &src;
                        nv = new Vec(first, last);
                        if (src.misuse)
                            bad(kname(p.kind), "iterator_misuse", "the constructor dereferenced or advanced the end iterator of the input range");
                    }
                    else
                        return false;
                }
                else if (p.kind == K_CTOR_RANGE_MOVE_ITER)
                {
                    if constexpr (Tr::has_list_range)
                    {
                        std::list<T> src; // elements handed over as rvalues
                        for (int v : l)
                            src.emplace_back(v);
                        nv = new Vec(std::make_move_iterator(src.begin()), std::make_move_iterator(src.end()));
                    }
                    else
                        return false;
                }
                else if (p.kind == K_CTOR_RANGE_LIST)
                {
                    if constexpr (Tr::has_list_range)
                    {
                        std::list<T> src;
                        for (int v : l)
                            src.emplace_back(v);
                        nv = new Vec(src.begin(), src.end());
                    }
                    else
                        return false;
                }
                else
                {
                    std::vector<T> src;
                    src.reserve(l.size() + 1);
                    for (int v : l)
                        src.emplace_back(v);
                    src.emplace_back(9); // data() is never null; the extra element must not be read
                    if (p.kind == K_CTOR_RANGE_TMPL)
                        nv = new Vec((const T *)src.data(), (const T *)src.data() + l.size());
                    else
                        nv = new Vec((T *)src.data(), (T *)src.data() + l.size());
                }
                replace(p.x, nv);
                mx = l;
                break;
            }
            case K_CTOR_COUNT:
            {
                ctx(kname(p.kind), p.a ? "nonzero" : "zero");
                Vec *nv = new Vec((size_t)p.a);
                replace(p.x, nv);
                mx.assign(p.a, 0);
                break;
            }
            case K_AT_OUT_OF_RANGE:
                if constexpr (Tr::has_at)
                {
                    const Vec &CX = X;
                    const char *nm = p.x ? "B" : "A";
                    ctx("at");
                    bool threw = false;
                    try
                    {
                        (void)X.at(n);
                    }
                    catch (const std::out_of_range &)
                    {
                        threw = true;
                    }
                    if (!threw)
                        bad("at", "no_throw", mc::fmt("%s.at(%d) with size %d did not throw std::out_of_range", nm, n, n));
                    ctx("at_const");
                    threw = false;
                    try
                    {
                        (void)CX.at(n);
                    }
                    catch (const std::out_of_range &)
                    {
                        threw = true;
                    }
                    if (!threw)
                        bad("at_const", "no_throw", mc::fmt("const %s.at(%d) with size %d did not throw std::out_of_range", nm, n, n));
                    break;
                }
                return false;
            default:
                return false;
            }
            check(kname(p.kind));
            return true;
        }
        bool leave_box()
        {
            mc::count("disabled_would_leave_length_box");
            return false;
        }

        // -------------------------------------------------- oracles after every transition
        void bad(const char *op, const char *kind, const string &msg)
        {
            mc::violation(mc::fmt("C02.%s.%s.%s", variant.c_str(), op, kind), "%s", msg.c_str());
        }
        std::vector<int> contents(const Vec &v)
        {
            std::vector<int> r;
            for (auto it = v.begin(); it != v.end(); ++it)
                r.push_back(value_of(*it));
            return r;
        }
        void check(const char *op)
        {
            bool ok = true;
            for (int i = 0; i < 2; i++)
            {
                Vec &v = *obj[i];
                const Vec &cv = v;
                const char *nm = i ? "B" : "A";
                const auto &m = ref[i];
                if (v.size() != m.size())
                {
                    bad(op, "size", mc::fmt("%s.size()=%zu, std::vector has %zu %s", nm, v.size(), m.size(), vstr(m).c_str()));
                    ok = false;
                    continue;
                }
                if (v.capacity() < v.size())
                {
                    bad(op, "capacity_below_size", mc::fmt("%s.capacity()=%zu < size()=%zu", nm, v.capacity(), v.size()));
                    ok = false;
                    continue;
                }
                if (v.capacity() > (size_t)bx.C)
                    mc::cap("capacity left the box");
                if (v.empty() != m.empty())
                    bad(op, "empty", mc::fmt("%s.empty()=%d with %zu elements", nm, (int)v.empty(), m.size()));
                // the buffer is exactly one outstanding allocator block of capacity() slots
                if (v.data())
                {
                    auto z = reg.zones.find((uintptr_t)v.data());
                    if (z == reg.zones.end() || !z->second.alloc)
                    {
                        bad(op, "buffer_not_from_allocator", mc::fmt("%s.data() is not a block handed out by the allocator", nm));
                        ok = false;
                        continue;
                    }
                    if (z->second.n < v.capacity())
                        bad(op, "capacity_exceeds_allocation", mc::fmt("%s.capacity()=%zu, allocate(%zu)", nm, v.capacity(), z->second.n));
                    // lifetime view: slots [0,size) hold live, not moved-from objects; the rest hold none
                    for (size_t k = 0; tracked && k < z->second.n; k++) // every slot of the block, not only capacity()
                    {
                        trk::St s = reg.state((const char *)v.data() + k * sizeof(T));
                        if (k < v.size() && s != trk::ALIVE)
                        {
                            bad(op, "element_not_alive", mc::fmt("%s[%zu] (size %zu) is %s", nm, k, v.size(), trk::stname(s)));
                            ok = false;
                        }
                        if (k >= v.size() && trk::Registry::live(s))
                        {
                            bad(op, "live_object_beyond_size", mc::fmt("slot %zu of %s (size %zu, capacity %zu) still holds an %s object", k, nm, v.size(), v.capacity(), trk::stname(s)));
                            ok = false;
                        }
                    }
                }
                else if (v.size() || v.capacity())
                {
                    bad(op, "null_buffer", mc::fmt("%s.data()==nullptr with size %zu capacity %zu", nm, v.size(), v.capacity()));
                    ok = false;
                    continue;
                }
                if (!ok)
                    continue;
                bool same = true;
                {
                    size_t k = 0;
                    for (auto it = cv.begin(); it != cv.end(); ++it, ++k)
                        if (k >= m.size() || value_of(*it) != m[k])
                            same = false;
                    if (k != m.size())
                        same = false;
                }
                if (!same)
                {
                    bad(op, "contents", mc::fmt("%s=%s, std::vector=%s", nm, vstr(contents(cv)).c_str(), vstr(m).c_str()));
                    ok = false;
                    continue;
                }
                // indexing
                bool idx = true;
                for (size_t k = 0; k < m.size(); k++)
                {
                    if (value_of(v[k]) != m[k] || value_of(cv[k]) != m[k] || value_of(v.data()[k]) != m[k] || value_of(cv.data()[k]) != m[k])
                        idx = false;
                    if constexpr (Tr::has_at)
                        if (value_of(v.at(k)) != m[k] || value_of(cv.at(k)) != m[k])
                            idx = false;
                }
                if (!m.empty() && (value_of(v.front()) != m.front() || value_of(v.back()) != m.back() || value_of(cv.front()) != m.front() ||
                                   value_of(cv.back()) != m.back()))
                    idx = false;
                {
                    size_t k = 0;
                    for (auto it = v.begin(); it != v.end(); ++it, ++k)
                        if (k >= m.size() || value_of(*it) != m[k])
                            idx = false;
                    if (k != m.size())
                        idx = false;
                }
                if (!idx)
                    bad(op, "indexing", mc::fmt("operator[]/at/front/back/data of %s disagree with %s", nm, vstr(m).c_str()));
            }
            if (!ok)
                return;
            // comparisons
            const Vec &A = *obj[0], &B = *obj[1];
            const auto &a = ref[0], &b = ref[1];
            if ((A == B) != (a == b) || (B == A) != (a == b) || (A != B) != (a != b) || !(A == A) || (B != B))
                bad("compare", "equality", mc::fmt("A=%s B=%s: A==B is %d, A!=B is %d", vstr(a).c_str(), vstr(b).c_str(), (int)(A == B), (int)(A != B)));
            if constexpr (Tr::has_less)
            {
                if ((A < B) != (a < b) || (B < A) != (b < a) || (A < A))
                    bad("compare", "less", mc::fmt("A=%s B=%s: A<B is %d, B<A is %d", vstr(a).c_str(), vstr(b).c_str(), (int)(A < B), (int)(B < A)));
            }
            if (tracked)
            {
                long want = (long)a.size() + (long)b.size();
                if (reg.live_total() != want)
                    bad(op, "live_object_count", mc::fmt("%ld element objects are alive, the two vectors hold %ld", reg.live_total(), want));
            }
            long blocks = (A.data() ? 1 : 0) + (B.data() ? 1 : 0);
            if (reg.alloc_zones() != blocks)
                bad(op, "buffer_leak", mc::fmt("%ld allocator blocks outstanding, the two vectors own %ld", reg.alloc_zones(), blocks));
            {
                char buf[32];
                size_t k = 0;
                for (int x : a)
                    buf[k++] = (char)('0' + x);
                buf[k++] = '|';
                for (int x : b)
                    buf[k++] = (char)('0' + x);
                mc::outcome(string(buf, k));
            }
        }
        string key() override
        {
            trk::Use u(reg);
            string k;
            k.reserve(64);
            auto num = [&k](size_t v) {
                if (v >= 10)
                    k += (char)('0' + v / 10 % 10);
                k += (char)('0' + v % 10);
            };
            for (int i = 0; i < 2; i++)
            {
                Vec &v = *obj[i];
                num(v.size());
                k += '/';
                num(v.capacity());
                k += v.data() ? 'p' : '0';
                size_t n = std::min(v.size(), ref[i].size()); // equal unless a violation cut this branch
                for (size_t j = 0; j < n; j++)
                {
                    k += ',';
                    int e = value_of(v.data()[j]);
                    if (e < 0)
                        k += '-', e = -e;
                    num((size_t)e % 100);
                }
                k += '=';
                for (int e : ref[i])
                    k += (char)('0' + e);
                k += '|';
            }
            return k;
        }
    };

    template <class Tr> void register_vectors()
    {
        string n = Tr::name;
        mc::add_bfs(n + "_int", [n] { return std::unique_ptr<mc::Model>(new VecModel<Tr, int>(box(), n + "_int")); });
        mc::add_bfs(n + "_tracked", [n] { return std::unique_ptr<mc::Model>(new VecModel<Tr, Tracked>(box(), n + "_tracked")); });
        mc::add_bfs(n + "_3values_tracked", [n] { return std::unique_ptr<mc::Model>(new VecModel<Tr, Tracked>(box_wide(), n + "_tracked")); });
    }
}
