// tracked.hpp — lifetime registry, `Tracked` element type and tracking allocator.
// Shared by the C02 (vector / flat_*) and C14 (static_vector / static_string) harnesses.
//
//  * Registry: state of every address that ever held a Tracked object
//    (raw / alive / moved-from / destroyed) plus "zones" = blocks of memory a
//    container may use (heap blocks handed out by TrackAlloc; for inline storage
//    the exactly-sized heap block the harness placed the container in).
//  * Tracked: every constructor / destructor / assignment / move / read reports
//    (this, event) to the registry of the model that is currently running.
//    The object never trusts its own fields unless the registry says the slot is
//    live, so a misuse is reported as ONE clean violation instead of a crash.
//  * TrackAlloc<T>: exactly-sized malloc blocks (ASan sees one byte of overflow),
//    allocate/deallocate pairing, "deallocated with live elements".
//
// Violations are reported as  <prop>.<ctx>.<kind>  where ctx is set by the harness
// to "<variant>.<operation>[.<input class>]" before each library call.
#pragma once
#include "mc.hpp"
#include <cstdint>
#include <cstdlib>
#include <cstring>
#include <map>
#include <set>
#include <string>

namespace trk
{
    enum St : uint8_t
    {
        RAW,
        ALIVE,
        MOVED, // moved-from: still a constructed object that must be destroyed once
        DEAD
    };
    inline const char *stname(St s)
    {
        static const char *n[] = {"never-constructed", "alive", "moved-from", "destroyed"};
        return n[s];
    }

    struct Zone
    {
        uintptr_t base = 0;
        size_t len = 0;   // bytes
        size_t esz = 0;   // element size; 0 = slots not known yet (inline storage, validated later)
        size_t n = 0;     // slots
        bool alloc = false; // handed out by TrackAlloc
        int id = 0;         // ordinal, for messages
    };

    struct Registry
    {
        std::string prop = "C02";
        std::string ctx = "init";
        std::map<uintptr_t, St> st; // only addresses that saw an event
        std::map<uintptr_t, Zone> zones;
        std::set<std::string> reported;
        long n_ctor = 0, n_dtor = 0, n_alloc = 0, n_dealloc = 0;
        long ev_assign = 0, ev_move = 0, ev_read = 0;
        int next_zone = 0;
        bool mute = false;
        static const size_t SLACK = 0; // events beyond a block are left to ASan (the element writes its fields)

        void begin_op(const std::string &c)
        {
            ctx = c;
            reported.clear();
        }
        void fail(const char *kind, const std::string &detail)
        {
            if (mute)
                return;
            std::string sig = prop + "." + ctx + "." + kind;
            if (!reported.insert(sig).second)
                return;
            mc::violation(sig, "%s", detail.c_str());
        }
        // ---- zones
        const Zone *zone_of(uintptr_t p, bool &exact) const
        {
            exact = false;
            auto it = zones.upper_bound(p);
            const Zone *lo = nullptr, *hi = nullptr;
            if (it != zones.end())
                hi = &it->second;
            if (it != zones.begin())
            {
                --it;
                lo = &it->second;
            }
            if (lo && p < lo->base + lo->len)
            {
                exact = true;
                return lo;
            }
            if (lo && p < lo->base + lo->len + SLACK)
                return lo;
            if (hi && p + SLACK >= hi->base)
                return hi;
            return nullptr;
        }
        std::string where(uintptr_t p) const
        {
            bool ex;
            const Zone *z = zone_of(p, ex);
            if (!z)
                return "object outside every container block";
            long off = (long)p - (long)z->base;
            if (z->esz)
                return mc::fmt("byte offset %ld (slot %ld%s) of %s block #%d with %zu slots", off, off / (long)z->esz,
                               off % (long)z->esz ? "+misaligned" : "", z->alloc ? "allocator" : "inline", z->id, z->n);
            return mc::fmt("byte offset %ld of inline block #%d (%zu bytes)", off, z->id, z->len);
        }
        // is p a legal element slot? (addresses outside every zone are free objects: temporaries, harness-owned)
        bool slot_ok(uintptr_t p, const char *what)
        {
            bool ex;
            const Zone *z = zone_of(p, ex);
            if (!z)
                return true;
            if (z->esz == 0)
            {
                if (ex)
                    return true; // validated later against data()
                fail("outside_storage", mc::fmt("%s at %s", what, where(p).c_str()));
                return false;
            }
            long off = (long)p - (long)z->base;
            if (!ex || off < 0 || off % (long)z->esz || (size_t)(off / (long)z->esz) >= z->n)
            {
                fail("outside_storage", mc::fmt("%s at %s", what, where(p).c_str()));
                return false;
            }
            return true;
        }
        Zone &zone_add(void *p, size_t bytes, size_t esz, size_t n, bool alloc)
        {
            Zone z;
            z.base = (uintptr_t)p;
            z.len = bytes;
            z.esz = esz;
            z.n = n;
            z.alloc = alloc;
            z.id = next_zone++;
            // forget stale states of a recycled address range
            st.erase(st.lower_bound(z.base), st.lower_bound(z.base + (bytes ? bytes : 1)));
            return zones[z.base] = z;
        }
        long live_in(uintptr_t b, size_t len) const
        {
            long k = 0;
            for (auto it = st.lower_bound(b); it != st.end() && it->first < b + len; ++it)
                if (it->second == ALIVE || it->second == MOVED)
                    k++;
            return k;
        }
        void zone_drop(uintptr_t b)
        {
            auto it = zones.find(b);
            if (it == zones.end())
                return;
            size_t len = it->second.len ? it->second.len : 1;
            st.erase(st.lower_bound(b), st.lower_bound(b + len));
            zones.erase(it);
        }
        void on_allocate(void *p, size_t n, size_t esz)
        {
            n_alloc++;
            zone_add(p, n * esz, esz, n, true);
        }
        bool on_deallocate(void *p, size_t n)
        {
            auto it = zones.find((uintptr_t)p);
            if (it == zones.end() || !it->second.alloc)
            {
                fail("dealloc_unknown_block", mc::fmt("deallocate(%s, %zu): not a block start handed out by allocate", where((uintptr_t)p).c_str(), n));
                return false;
            }
            n_dealloc++;
            if (it->second.n != n)
                fail("dealloc_size_mismatch", mc::fmt("deallocate(block #%d, %zu) but allocate(%zu)", it->second.id, n, it->second.n));
            long lv = live_in(it->second.base, it->second.len);
            if (lv)
                fail("dealloc_with_live_elements", mc::fmt("block #%d of %zu slots deallocated while %ld element(s) in it were never destroyed", it->second.id, it->second.n, lv));
            zone_drop((uintptr_t)p);
            return true;
        }
        // ---- element events; return value: may the object touch its own fields / the slot?
        St state(const void *p) const
        {
            auto it = st.find((uintptr_t)p);
            return it == st.end() ? RAW : it->second;
        }
        static bool live(St s) { return s == ALIVE || s == MOVED; }
        bool on_construct(const void *p)
        {
            if (!slot_ok((uintptr_t)p, "constructor"))
                return false;
            St s = state(p);
            if (live(s))
                fail("construct_over_live", mc::fmt("constructor ran on an %s element that was not destroyed first (%s)", stname(s), where((uintptr_t)p).c_str()));
            else
                n_ctor++;
            st[(uintptr_t)p] = ALIVE;
            return true;
        }
        // returns true if the slot held a live object (its resources must be released)
        bool on_destroy(const void *p)
        {
            St s = state(p);
            if (!live(s))
            {
                fail("destroy_nonlive", mc::fmt("destructor ran on a %s slot (%s)", stname(s), where((uintptr_t)p).c_str()));
                return false;
            }
            n_dtor++;
            st[(uintptr_t)p] = DEAD;
            bool ex;
            if (!zone_of((uintptr_t)p, ex))
                st.erase((uintptr_t)p); // free object: forget (stack addresses are recycled)
            return true;
        }
        // 0: do not touch, 1: slot was live (normal assignment), 2: slot was not live (treat as construction)
        int on_assign_to(const void *p, const char *how)
        {
            ev_assign++;
            if (!slot_ok((uintptr_t)p, how))
                return 0;
            St s = state(p);
            if (!live(s))
            {
                fail("assign_to_nonlive", mc::fmt("%s into a %s slot (%s)", how, stname(s), where((uintptr_t)p).c_str()));
                st[(uintptr_t)p] = ALIVE;
                return 2;
            }
            st[(uintptr_t)p] = ALIVE;
            return 1;
        }
        bool on_read(const void *p, const char *how)
        {
            ev_read++;
            St s = state(p);
            if (!live(s))
            {
                fail("read_nonlive", mc::fmt("%s reads a %s slot (%s)", how, stname(s), where((uintptr_t)p).c_str()));
                return false;
            }
            return true;
        }
        bool on_move_from(const void *p)
        {
            ev_move++;
            St s = state(p);
            if (!live(s))
            {
                fail("move_from_nonlive", mc::fmt("move from a %s slot (%s)", stname(s), where((uintptr_t)p).c_str()));
                return false;
            }
            st[(uintptr_t)p] = MOVED;
            return true;
        }
        long live_total() const
        {
            long k = 0;
            for (auto &e : st)
                if (live(e.second))
                    k++;
            return k;
        }
        long alloc_zones() const
        {
            long k = 0;
            for (auto &z : zones)
                if (z.second.alloc)
                    k++;
            return k;
        }
    };

    inline Registry *&cur()
    {
        static Registry *r = nullptr;
        return r;
    }
    struct Use
    {
        Registry *prev;
        explicit Use(Registry &r) : prev(cur()) { cur() = &r; }
        ~Use() { cur() = prev; }
    };

    // ------------------------------------------------------------ element constructors that fail on demand
    struct Boom // thrown by the k-th constructing (non-move) Tracked constructor after arm_throw(k)
    {
    };
    inline int &throw_countdown()
    {
        static int n = -1; // -1: never
        return n;
    }
    inline void arm_throw(int k) { throw_countdown() = k; }
    inline bool disarm_throw() // true if the exception was NOT delivered
    {
        bool pending = throw_countdown() > 0;
        throw_countdown() = -1;
        return pending;
    }
    inline bool &throw_on_moves() // when set, move constructions count (and may throw) as well
    {
        static bool b = false;
        return b;
    }
    inline void maybe_throw()
    {
        int &n = throw_countdown();
        if (n > 0 && --n == 0)
        {
            n = -1;
            throw Boom();
        }
    }

    // ------------------------------------------------------------ element type
    struct Tracked
    {
        int val;
        int *heap; // owns one heap int: double free / leak visible to the sanitizer as well

        void init(int v)
        {
            val = v;
            heap = new int(v);
        }
        Tracked() : Tracked(0) {}
        Tracked(int v)
        {
            maybe_throw(); // before anything is registered: the slot stays what it was
            Registry *r = cur();
            if (r && !r->on_construct(this))
                return;
            init(v);
        }
        int peek(const char *how) const
        {
            Registry *r = cur();
            if (r && !r->on_read(this, how))
                return -7;
            return heap ? *heap : val;
        }
        Tracked(const Tracked &o)
        {
            int v = o.peek("copy construction");
            maybe_throw();
            Registry *r = cur();
            if (r && !r->on_construct(this))
                return;
            init(v);
        }
        Tracked(Tracked &&o) noexcept(false) // "move" of a type whose move is an allocating copy may throw
        {
            if (throw_on_moves())
                maybe_throw(); // before the source is touched
            Registry *r = cur();
            int v = -7;
            int *h = nullptr;
            if (!r || r->on_move_from(&o))
            {
                v = o.val;
                h = o.heap;
                o.val = -1;
                o.heap = nullptr;
            }
            if (r && !r->on_construct(this))
            {
                delete h;
                return;
            }
            val = v;
            heap = h;
        }
        Tracked &operator=(const Tracked &o)
        {
            if (this == &o)
            {
                peek("self copy assignment");
                return *this;
            }
            int v = o.peek("copy assignment");
            Registry *r = cur();
            int k = r ? r->on_assign_to(this, "copy assignment") : 1;
            if (k == 0)
                return *this;
            if (k == 1)
                delete heap;
            init(v);
            return *this;
        }
        Tracked &operator=(Tracked &&o) noexcept
        {
            if (this == &o)
                return *this;
            Registry *r = cur();
            int v = -7;
            int *h = nullptr;
            if (!r || r->on_move_from(&o))
            {
                v = o.val;
                h = o.heap;
                o.val = -1;
                o.heap = nullptr;
            }
            int k = r ? r->on_assign_to(this, "move assignment") : 1;
            if (k == 0)
            {
                delete h;
                return *this;
            }
            if (k == 1)
                delete heap;
            val = v;
            heap = h;
            return *this;
        }
        ~Tracked()
        {
            Registry *r = cur();
            if (r && !r->on_destroy(this))
                return;
            delete heap;
            heap = nullptr;
        }
        friend bool operator==(const Tracked &a, const Tracked &b) { return a.peek("operator==") == b.peek("operator=="); }
        friend bool operator!=(const Tracked &a, const Tracked &b) { return a.peek("operator!=") != b.peek("operator!="); }
        friend bool operator<(const Tracked &a, const Tracked &b) { return a.peek("operator<") < b.peek("operator<"); }
    };

    // ------------------------------------------------------------ element types with unusual but legal properties
    // Overloaded unary operator&: `&x` does not yield the address of x (COM-style smart handles do this). Generic
    // code has to use std::addressof. Here `&x` points at a dummy that is not an object: whoever destroys or
    // constructs through it is reported by the registry, and the real element is never reached.
    struct Amp : Tracked
    {
        using Tracked::Tracked;
        Amp() = default;
        Amp(const Amp &) = default;
        Amp(Amp &&) = default;
        Amp &operator=(const Amp &) = default;
        Amp &operator=(Amp &&) = default;
        static Amp *dummy()
        {
            alignas(Tracked) static unsigned char raw[sizeof(Tracked)];
            return reinterpret_cast<Amp *>(raw);
        }
        Amp *operator&() { return dummy(); }
        const Amp *operator&() const { return dummy(); }
    };
    // Move-only: no copy constructor, no copy assignment.
    struct MoveOnly : Tracked
    {
        using Tracked::Tracked;
        MoveOnly() = default;
        MoveOnly(const MoveOnly &) = delete;
        MoveOnly &operator=(const MoveOnly &) = delete;
        MoveOnly(MoveOnly &&) = default;
        MoveOnly &operator=(MoveOnly &&) = default;
    };

    inline int value_of(const Tracked &t) { return t.peek("harness read"); }
    inline int value_of(int v) { return v; }
    inline int value_of(char v) { return (unsigned char)v; }

    // ------------------------------------------------------------ allocator
    template <class T> struct TrackAlloc
    {
        using value_type = T;
        using pointer = T *;
        using const_pointer = const T *;
        using reference = T &;
        using const_reference = const T &;
        using size_type = size_t;
        using difference_type = ptrdiff_t;
        template <class U> struct rebind
        {
            using other = TrackAlloc<U>;
        };
        TrackAlloc() = default;
        template <class U> TrackAlloc(const TrackAlloc<U> &) {}
        T *allocate(size_t n)
        {
            void *p = malloc(n * sizeof(T)); // exact: one byte beyond is an ASan report
            if (n) // deterministic garbage (large blocks: the first 64 KiB are enough to make a stray read visible)
                memset(p, 0xCD, n * sizeof(T) < 65536 ? n * sizeof(T) : 65536);
            if (Registry *r = cur())
                r->on_allocate(p, n, sizeof(T));
            return (T *)p;
        }
        // Not part of the std allocator interface; offered because a container may ask its allocator to grow a
        // block (igris::allocator in std_portable.h may). Contract as documented there: a block of n elements
        // with the old CONTENTS carried over bytewise, the old block released. The registry sees a new raw block
        // and the release of the old one (with whatever was alive in it).
        T *reallocate(T *p, size_t n)
        {
            if (!p)
                return allocate(n);
            Registry *r = cur();
            auto z = r ? r->zones.find((uintptr_t)p) : decltype(r->zones.end())();
            if (!r || z == r->zones.end())
                return (T *)realloc((void *)p, n * sizeof(T)); // nobody is tracking this block: plain realloc
            size_t oldn = z->second.n;
            T *q = allocate(n);
            memcpy((void *)q, (const void *)p, (oldn < n ? oldn : n) * sizeof(T));
            deallocate(p, oldn);
            return q;
        }
        void deallocate(T *p, size_t n)
        {
            if (Registry *r = cur())
                if (!r->on_deallocate(p, n))
                    return; // unknown block: do not hand it to free()
            free(p);
        }
        friend bool operator==(const TrackAlloc &, const TrackAlloc &) { return true; }
        friend bool operator!=(const TrackAlloc &, const TrackAlloc &) { return false; }
    };
}
