// C02 — igris::vector (vector.h): large-size tree checks (see c02_large.hpp). Linked into c02_main.
#include "c02_extra.hpp"
#include "c02_large.hpp"
#include <igris/container/vector.h>

namespace
{
    struct VecTraits
    {
        template <class T> using vec = igris::vector<T, trk::TrackAlloc<T>>;
        template <class T> using vec_default = igris::vector<T>; // the header's own default allocator
        static constexpr const char *name = "vector";
        static constexpr bool has_at = true, has_less = true, has_sorted = true, has_il = true, has_list_range = true, has_erase_range = true;
    };

}

MC_INIT
{
    c02::register_large_vectors<VecTraits>();
    c02::register_extra<VecTraits>();
}
