// c02_flat_large.hpp — tree-shape sub-checks for LARGE flat_map / flat_set (300 keys: beyond any 8-bit
// size, index or search bound). One case = (insertion order, insertion method); keys 0..299 (0..599 under the coarse comparator) are inserted in
// ascending, descending or period-7 shuffled order; at the sizes 255..257 and at the end every key and a few
// absent ones are looked up through count / find / at / operator[] / size and compared with the reference
// (RefMapT / a sorted key list; in TUs that can include the host headers the real std::map / std::set run
// alongside and must agree with it).
#pragma once
#include "c02_flat.hpp"
#include "long_history.hpp"
#include <numeric>
#include <utility>

namespace c02
{
    // 300 keys; 600 under the coarse comparator so that the number of entries still crosses 255/256
    template <class Cmp> inline int large_nkeys() { return std::is_same<Cmp, HalfLess>::value ? 600 : 300; }
    inline int large_key(int LARGE_KEYS, int order, int i)
    {
        switch (order)
        {
        case 0:
            return i;
        case 1:
            return LARGE_KEYS - 1 - i;
        default:
            return (i * 7) % LARGE_KEYS; // gcd(7,300)=1: a permutation
        }
    }
    inline void fbad(const string &variant, const string &op, const char *kind, const string &msg)
    {
        mc::violation(mc::fmt("C02.%s.large.%s.%s", variant.c_str(), op.c_str(), kind), "%s", msg.c_str());
    }

    template <class Map, class Ref> bool large_map_lookup(const string &variant, const string &op, Map &m, Ref &r, int LARGE_KEYS)
    {
        const Map &cm = m;
        if ((size_t)m.size() != r.size() || m.empty() != (r.size() == 0))
        {
            fbad(variant, op, "size", mc::fmt("size()=%zu, std::map has %zu", (size_t)m.size(), r.size()));
            return false;
        }
        for (int k = -2; k <= LARGE_KEYS + 2; k++)
        {
            auto *we = r.find(k);
            size_t c = cm.count(k);
            if (c != (we ? 1u : 0u))
            {
                fbad(variant, op, "count", mc::fmt("count(%d)=%zu with %zu entries, std::map says %d", k, c, r.size(), we ? 1 : 0));
                return false;
            }
            auto it = m.find(k);
            auto cit = cm.find(k);
            bool f = it != m.end(), cf = cit != cm.end();
            if (f != (we != nullptr) || cf != f || (f && (it->first != we->first || it->second != we->second || cit->second != we->second)))
            {
                fbad(variant, op, "find", mc::fmt("find(%d) with %zu entries: found=%d, std::map found=%d", k, r.size(), (int)f, (int)(we != nullptr)));
                return false;
            }
            if (we)
            {
                try
                {
                    if (m.at(k) != we->second || cm.at(k) != we->second || cm[k] != we->second)
                    {
                        fbad(variant, op, "at", mc::fmt("at(%d)=%d with %zu entries, std::map %d", k, m.at(k), r.size(), we->second));
                        return false;
                    }
                }
                catch (const std::out_of_range &)
                {
                    fbad(variant, op, "at", mc::fmt("at(%d) threw with %zu entries, std::map holds the key", k, r.size()));
                    return false;
                }
            }
        }
        return true;
    }

    // method: 0 insert(value), 1 operator[] write, 2 emplace
    template <class Map, class StdRef, class Cmp> void large_map_body(const string &variant)
    {
        const int LARGE_KEYS = large_nkeys<Cmp>();
        int c = mc::choose(3 * 3);
        int order = c % 3, method = c / 3;
        static const char *on[] = {"ascending", "descending", "period-7 shuffled"}, *mn[] = {"insert", "index_write", "emplace"};
        mc::describe("%s: %d keys in %s order through %s, lookups of every key at sizes 255..257 and at the end", variant.c_str(), LARGE_KEYS, on[order], mn[method]);
        mc::nontrivial();
        string op = mn[method];
        mc::crash_context("C02.%s.large.%s.crash", variant.c_str(), op.c_str());
        Map m;
        RefMapT<Cmp> r;
        StdRef s;
        uint64_t steps = 0;
        for (int i = 0; i < LARGE_KEYS; i++)
        {
            int k = large_key(LARGE_KEYS, order, i), v = k * 3 + 1;
            bool was = r.find(k) != nullptr;
            if (method == 0)
            {
                m.insert(typename Map::value_type(k, v));
                r.insert(k, v);
                s.insert(k, v);
            }
            else if (method == 1)
            {
                m[k] = v;
                r.index(k) = v;
                s.set(k, v);
            }
            else
            {
                auto res = m.emplace(k, v);
                bool ins = r.insert(k, v);
                s.insert(k, v);
                if (res.second != ins)
                {
                    fbad(variant, op, "return_value", mc::fmt("emplace(%d,..) returned inserted=%d, std::map %d (entries %zu)", k, (int)res.second, (int)ins, r.size()));
                    return;
                }
            }
            (void)was;
            steps++;
            if ((size_t)m.size() != r.size())
            {
                fbad(variant, op, "size", mc::fmt("size()=%zu after %d insertions, std::map has %zu", (size_t)m.size(), i + 1, r.size()));
                return;
            }
            if (r.size() >= 255 && r.size() <= 257)
                if (!large_map_lookup(variant, op, m, r, LARGE_KEYS))
                    return;
        }
        if (!s.agrees(r))
            mc::harness_error("RefMap and std::map disagree in %s", variant.c_str());
        if (!large_map_lookup(variant, op, m, r, LARGE_KEYS))
            return;
        // overwrite through operator[] / at, copy, clear
        op = "copy_ctor";
        Map m2(m);
        if (!large_map_lookup(variant, op, m2, r, LARGE_KEYS))
            return;
        op = "index_write";
        for (int k : {0, 1, 254, 255, 256, 257, LARGE_KEYS - 1})
        {
            m[k] = -k;
            r.index(k) = -k;
        }
        if (!large_map_lookup(variant, op, m, r, LARGE_KEYS))
            return;
        op = "clear";
        m.clear();
        r.clear();
        if (!large_map_lookup(variant, op, m, r, LARGE_KEYS))
            return;
        mc::more_cases(steps, steps);
        mc::outcome(mc::fmt("%d/%d", order, method));
    }

    template <class Set, class StdRef, class Cmp> void large_set_body(const string &variant)
    {
        const int LARGE_KEYS = large_nkeys<Cmp>();
        int c = mc::choose(3 * 2);
        int order = c % 3, rv = c / 3;
        static const char *on[] = {"ascending", "descending", "period-7 shuffled"};
        mc::describe("%s: %d keys in %s order through insert(%s), count of every key at sizes 255..257 and at the end", variant.c_str(), LARGE_KEYS, on[order], rv ? "rvalue" : "lvalue");
        mc::nontrivial();
        string op = "insert";
        mc::crash_context("C02.%s.large.%s.crash", variant.c_str(), op.c_str());
        Set st;
        std::vector<int> ref; // one representative per equivalence class, in comparator order
        StdRef s;
        uint64_t steps = 0;
        auto lookup = [&](const string &op) {
            const Set &cs = st;
            if ((size_t)cs.size() != ref.size())
            {
                fbad(variant, op, "size", mc::fmt("size()=%zu, std::set has %zu", (size_t)cs.size(), ref.size()));
                return false;
            }
            for (int k = -2; k <= LARGE_KEYS + 2; k++)
            {
                size_t want = std::find_if(ref.begin(), ref.end(), [&](int e) { return equiv<Cmp>(e, k); }) != ref.end();
                if (cs.count(k) != want)
                {
                    fbad(variant, op, "count", mc::fmt("count(%d)=%zu with %zu keys, std::set says %zu", k, (size_t)cs.count(k), ref.size(), want));
                    return false;
                }
            }
            size_t n = 0;
            for (auto it = st.begin(); it != st.end(); ++it)
                n++;
            if (n != ref.size())
            {
                fbad(variant, op, "iteration", mc::fmt("begin()..end() yields %zu keys, size is %zu", n, ref.size()));
                return false;
            }
            return true;
        };
        for (int i = 0; i < LARGE_KEYS; i++)
        {
            const int k = large_key(LARGE_KEYS, order, i);
            bool present = std::find_if(ref.begin(), ref.end(), [&](int e) { return equiv<Cmp>(e, k); }) != ref.end();
            if (rv)
                st.insert(int(k));
            else
                st.insert(k);
            if (!present)
            {
                ref.push_back(k);
                std::sort(ref.begin(), ref.end(), Cmp());
            }
            s.insert(k);
            steps++;
            if ((size_t)st.size() != ref.size())
            {
                fbad(variant, op, "size", mc::fmt("size()=%zu after %d insertions, std::set has %zu", (size_t)st.size(), i + 1, ref.size()));
                return;
            }
            if (ref.size() >= 255 && ref.size() <= 257)
                if (!lookup(op))
                    return;
        }
        if (!s.agrees(ref))
            mc::harness_error("reference set and std::set disagree in %s", variant.c_str());
        if (!lookup(op))
            return;
        // inserting everything again changes nothing
        for (int i = 0; i < LARGE_KEYS; i++)
            st.insert(large_key(LARGE_KEYS, 2, i));
        if (!lookup("insert_present"))
            return;
        Set copy(st);
        st.clear();
        ref.clear();
        if (!lookup("clear"))
            return;
        (void)copy;
        mc::more_cases(steps, steps);
        mc::outcome(mc::fmt("%d/%d", order, rv));
    }

    // ------------------------------------------------------------------------------ long initializer lists
    // Lists of 17, 24 and 40 entries in which keys repeat: the FIRST entry of a key must win (std::map's
    // insert rule). Lengths beyond 16 matter because that is where libstdc++'s std::sort stops being an
    // insertion sort, i.e. stops being stable. The value of entry i is i, so a wrong survivor is visible.
    template <class Map, size_t... I> Map *make_long_il(const std::vector<std::pair<int, int>> &v, std::index_sequence<I...>)
    {
        return new Map{{v[I].first, v[I].second}...}; // braced at the call site: what std::map itself accepts
    }
    inline int il_key(int pattern, int i, int len)
    {
        switch (pattern)
        {
        case 0:
            return i % 5; // every key many times
        case 1:
            return i % (len - 1); // one repeat, at the very end
        case 2:
            return (len - i) % 7; // descending runs
        case 3:
            return 3; // one key only
        case 4:
            return i < len / 2 ? i : len - 1 - i; // second half mirrors the first
        case 5:
            return (i * 7) % len / 2; // shuffled pairs
        case 6:
            return i < 2 ? 9 : 20 - i % 11; // the repeated key first, then others above and below
        default:
            return (i * 5 + 3) % 13;
        }
    }
    template <class Map, class StdRef, class Cmp> void long_initlist_body(const string &variant)
    {
        static const int lens[3] = {17, 24, 40};
        const int NP = 8;
        int c = mc::choose(3 * NP);
        int len = lens[c / NP], pat = c % NP;
        mc::describe("%s: initializer list of %d entries, key pattern %d (entry i has value i), first entry of a key must win", variant.c_str(), len, pat);
        mc::nontrivial();
        string op = "ctor_initlist.long_duplicate_keys";
        mc::crash_context("C02.%s.%s.crash", variant.c_str(), op.c_str());
        std::vector<std::pair<int, int>> v;
        RefMapT<Cmp> r;
        StdRef s;
        for (int i = 0; i < len; i++)
        {
            v.push_back({il_key(pat, i, len), i});
            r.insert(v.back().first, i);
            s.insert(v.back().first, i);
        }
        if (!s.agrees(r))
            mc::harness_error("RefMap and std::map disagree in %s", variant.c_str());
        Map *m = len == 17 ? make_long_il<Map>(v, std::make_index_sequence<17>()) : len == 24 ? make_long_il<Map>(v, std::make_index_sequence<24>()) : make_long_il<Map>(v, std::make_index_sequence<40>());
        large_map_lookup(variant, op, *m, r, 45);
        delete m;
        mc::outcome(mc::fmt("%d/%d/%zu", len, pat, r.size()));
    }

    // ------------------------------------------------------------------ long histories
    // (1) the BFS model's alphabet walked for many steps on the same map(s); (2) one map driven through
    // insert / operator[] / emplace / at over 300 keys in descending and stride-shuffled order, growing past
    // 33, 64 and 256 entries again and again (clear() when full), compared with std::map at every step.
    template <class Map, class StdRef, class Cmp> void map_long_history_body(const string &variant)
    {
        int c = mc::choose(2 * 3);
        static const int seeds[3] = {1, 5, 11};
        int steps = mc::thorough() ? 300000 : 70000, seed = seeds[c % 3];
        mc::describe("%s: %s, stride seed %d, %d operations on the same map", variant.c_str(), c / 3 ? "300-key history" : "BFS alphabet", seed, steps);
        mc::nontrivial();
        if (c / 3 == 0)
        {
            MapModel<Map, StdRef, Cmp> m(variant, 2, 3, true);
            lh::long_history(m, "C02." + variant, steps, seed);
            return;
        }
        const int NKEYS = large_nkeys<Cmp>();
        int stride = 7 * seed;
        while (std::gcd(stride, NKEYS) != 1)
            stride++;
        Map m;
        RefMapT<Cmp> r;
        StdRef s;
        string op = "long_history";
        mc::crash_context("C02.%s.large.long_history.crash", variant.c_str());
        for (int i = 0, k = NKEYS - 1; i < steps; i++)
        {
            k = (i / NKEYS) % 2 ? (int)(((long)k + stride) % NKEYS) : (k + NKEYS - 1) % NKEYS; // descending rounds, shuffled rounds
            int v = i % 1000;
            auto *e = r.find(k);
            switch (i % 5)
            {
            case 0:
                m.insert(typename Map::value_type(k, v));
                r.insert(k, v);
                s.insert(k, v);
                break;
            case 1:
                m[k] = v;
                r.index(k) = v;
                s.set(k, v);
                break;
            case 2:
                m.emplace(k, v);
                r.insert(k, v);
                s.insert(k, v);
                break;
            case 3:
                if (e)
                {
                    m.at(k) = v;
                    e->second = v;
                    s.set(k, v);
                }
                break;
            default:
                break; // lookup only
            }
            e = r.find(k);
            const Map &cm = m;
            auto it = cm.find(k);
            if ((size_t)m.size() != r.size() || cm.count(k) != (e ? 1u : 0u) || (it != cm.end()) != (e != nullptr) || (e && (it->second != e->second || it->first != e->first)))
            {
                fbad(variant, op, "lookup", mc::fmt("after %d operations on one map (%zu entries): size/count/find of key %d disagree with std::map", i + 1, r.size(), k));
                return;
            }
            if ((i & 1023) == 0 || r.size() == 33 || r.size() == 64 || r.size() == 256)
            {
                if (!large_map_lookup(variant, op, m, r, NKEYS))
                    return;
                mc::tick();
            }
            if ((int)r.size() >= (std::is_same<Cmp, HalfLess>::value ? NKEYS / 2 : NKEYS) && i % 3 == 0)
            {
                m.clear();
                r.clear();
                s.clear();
            }
        }
        if (!s.agrees(r))
            mc::harness_error("RefMap and std::map disagree in %s", variant.c_str());
        mc::more_cases(steps, steps);
        mc::outcome(mc::fmt("%zu", r.size()));
    }

    // ------------------------------------------------------------------ a key whose == is finer than its <
    // Records ordered by id only; == also looks at the tag. With the DEFAULT comparator (std::less<Rec>) a map
    // treats {0,a} and {0,b} as the same key, whatever operator== says.
    struct Rec
    {
        int id, tag;
        friend bool operator<(const Rec &a, const Rec &b) { return a.id < b.id; }
        friend bool operator==(const Rec &a, const Rec &b) { return a.id == b.id && a.tag == b.tag; }
        friend bool operator!=(const Rec &a, const Rec &b) { return !(a == b); }
    };
    struct NoStdRec
    {
        void insert(Rec, int) {}
        void set(Rec, int) {}
        void index(Rec) {}
        bool agrees(const std::vector<std::pair<Rec, int>> &) const { return true; }
    };
    template <class Map, class StdRef> void rec_key_body(const string &variant)
    {
        static const Rec keys[5] = {{0, 0}, {0, 1}, {1, 0}, {1, 1}, {2, 0}}; // the last one is never inserted
        const int NOP = 5, NKEY = 4, STEP = NOP * NKEY;
        int c = mc::choose(STEP * STEP * STEP);
        int steps[3] = {c % STEP, c / STEP % STEP, c / STEP / STEP};
        static const char *on[] = {"insert", "emplace", "index_write", "index_read", "at_write"};
        mc::describe("%s: keys ordered by id only (== also compares the tag), ops %s(%d) %s(%d) %s(%d)", variant.c_str(), on[steps[0] / NKEY], steps[0] % NKEY,
                     on[steps[1] / NKEY], steps[1] % NKEY, on[steps[2] / NKEY], steps[2] % NKEY);
        Map m;
        std::vector<std::pair<Rec, int>> ref; // first key of an id stays
        StdRef sref;
        auto rfind = [&](const Rec &k) -> std::pair<Rec, int> * {
            for (auto &e : ref)
                if (!(e.first < k) && !(k < e.first))
                    return &e;
            return nullptr;
        };
        for (int st = 0; st < 3; st++)
        {
            int op = steps[st] / NKEY;
            Rec k = keys[steps[st] % NKEY];
            int v = 10 * (st + 1) + op;
            string o = string("record_key.") + on[op];
            mc::crash_context("C02.%s.%s.crash", variant.c_str(), o.c_str());
            auto *e = rfind(k);
            if (e && e->first != k)
                mc::nontrivial(); // an equivalent key that is not ==
            switch (op)
            {
            case 0:
                m.insert(typename Map::value_type(k, v));
                if (!e)
                    ref.push_back({k, v});
                sref.insert(k, v);
                break;
            case 1:
            {
                auto r = m.emplace(k, v);
                if (r.second != (e == nullptr))
                {
                    fbad(variant, o, "return_value", mc::fmt("emplace({%d,%d},..) returned inserted=%d, std::map %d", k.id, k.tag, (int)r.second, (int)(e == nullptr)));
                    return;
                }
                if (!e)
                    ref.push_back({k, v});
                sref.insert(k, v);
                break;
            }
            case 2:
                m[k] = v;
                if (e)
                    e->second = v;
                else
                    ref.push_back({k, v});
                sref.set(k, v);
                break;
            case 3:
            {
                int got = m[k];
                if (!e)
                    ref.push_back({k, 0});
                sref.index(k);
                if (got != (e ? e->second : 0))
                {
                    fbad(variant, o, "value", mc::fmt("operator[]({%d,%d}) returned %d, std::map %d", k.id, k.tag, got, e ? e->second : 0));
                    return;
                }
                break;
            }
            case 4:
                if (!e)
                    continue; // the throwing case is covered elsewhere
                try
                {
                    m.at(k) = v;
                }
                catch (const std::out_of_range &)
                {
                    fbad(variant, o, "threw_for_present_key", mc::fmt("at({%d,%d}) threw although an equivalent key is present", k.id, k.tag));
                    return;
                }
                e->second = v;
                sref.set(k, v);
                break;
            }
            if (!sref.agrees(ref))
                mc::harness_error("record-key reference and std::map disagree in %s", variant.c_str());
            const Map &cm = m;
            if ((size_t)m.size() != ref.size())
            {
                fbad(variant, o, "size", mc::fmt("size()=%zu, std::map has %zu", (size_t)m.size(), ref.size()));
                return;
            }
            for (const Rec &q : keys)
            {
                auto *w = rfind(q);
                if (cm.count(q) != (w ? 1u : 0u))
                {
                    fbad(variant, o, "count", mc::fmt("count({%d,%d})=%zu, std::map says %d", q.id, q.tag, (size_t)cm.count(q), w ? 1 : 0));
                    return;
                }
                auto it = m.find(q);
                bool f = it != m.end();
                if (f != (w != nullptr) || (f && (it->first != w->first || it->second != w->second)))
                {
                    fbad(variant, o, "find", mc::fmt("find({%d,%d}): found=%d, std::map found=%d", q.id, q.tag, (int)f, (int)(w != nullptr)));
                    return;
                }
                if (w)
                {
                    try
                    {
                        if (cm.at(q) != w->second || cm[q] != w->second)
                        {
                            fbad(variant, o, "at", mc::fmt("at({%d,%d})=%d, std::map %d", q.id, q.tag, cm.at(q), w->second));
                            return;
                        }
                    }
                    catch (const std::out_of_range &)
                    {
                        fbad(variant, o, "at", mc::fmt("at({%d,%d}) threw, std::map holds an equivalent key", q.id, q.tag));
                        return;
                    }
                }
            }
        }
        mc::outcome(mc::fmt("%zu", ref.size()));
    }
}
