#include <algorithm>
// c02_extra.hpp — two small tree-shape sub-checks for igris::vector (vector.h and the std_portable.h twin):
//  * floating-point comparison: ==, !=, < on vector<double|float> over {+0.0, -0.0, NaN, 1.0}, all pairs of
//    sequences of length <= 3, against std::vector (equality of values is not equality of bytes);
//  * element constructors that throw: the k-th constructing Tracked constructor inside
//    emplace_back / push_back / insert / emplace / resize / copy assignment throws; afterwards size() must
//    equal the number of live elements ([0,size) alive, nothing alive beyond), the untouched prefix must be
//    intact, and destruction must balance (nothing destroyed that was never constructed, nothing left).
#pragma once
#include "c02_large.hpp"
#include "c02_vector.hpp"
#include "listlike.hpp"
#include "long_history.hpp"
#include <cmath>
#include <cstring>
#include <limits>

namespace c02
{
    // an element type whose == is not reflexive and not a comparison of bytes, without being floating point:
    // value 2 is unequal to everything including itself (like NaN), values 0 and 4 are equal to each other (like +0/-0)
    struct Odd
    {
        int v;
        int pad; // never compared
        friend bool operator==(const Odd &a, const Odd &b) { return a.v != 2 && b.v != 2 && (a.v == b.v || (a.v % 4 == 0 && b.v % 4 == 0)); }
        friend bool operator!=(const Odd &a, const Odd &b) { return !(a == b); }
        friend bool operator<(const Odd &a, const Odd &b) { return a.v != 2 && b.v != 2 && (a.v % 4 ? a.v : 0) < (b.v % 4 ? b.v : 0); }
    };
    template <class F> struct CmpAlphabet
    {
        static F get(int i)
        {
            const F a[4] = {(F) + 0.0, (F)-0.0, std::numeric_limits<F>::quiet_NaN(), (F)1.0};
            return a[i];
        }
    };
    template <> struct CmpAlphabet<Odd>
    {
        static Odd get(int i)
        {
            const Odd a[4] = {{0, 1}, {4, 2}, {2, 3}, {1, 4}};
            return a[i];
        }
    };

    // ==, !=, < of vectors of such elements against std::vector: every pair of sequences, every vector with
    // ITSELF (same object, same storage) and with a copy of itself (equal contents, other storage)
    template <class Tr, class F> void float_compare_body(const string &variant)
    {
        using Vec = typename Tr::template vec<F>;
        const F alphabet[4] = {CmpAlphabet<F>::get(0), CmpAlphabet<F>::get(1), CmpAlphabet<F>::get(2), CmpAlphabet<F>::get(3)};
        static const char *an[4] = {"+0", "-0", "NaN", "1"};
        std::vector<std::vector<int>> seqs = {{}};
        for (size_t i = 0; i < seqs.size(); i++)
            if (seqs[i].size() < 3)
                for (int a = 0; a < 4; a++)
                {
                    auto s = seqs[i];
                    s.push_back(a);
                    seqs.push_back(s);
                }
        int ai = mc::choose((int)seqs.size()); // 85
        auto name = [&](const std::vector<int> &s) {
            string r = "{";
            for (int a : s)
                r += string(an[a]) + " ";
            return r + "}";
        };
        mc::describe("%s: %s compared with every sequence of length <= 3 over {+0,-0,NaN,1}", variant.c_str(), name(seqs[ai]).c_str());
        mc::crash_context("C02.%s.compare.crash", variant.c_str());
        auto build = [&](const std::vector<int> &s, Vec &v, std::vector<F> &m) {
            for (int a : s)
            {
                v.push_back(alphabet[a]);
                m.push_back(alphabet[a]);
            }
        };
        Vec A;
        std::vector<F> ma;
        build(seqs[ai], A, ma);
        uint64_t n = 0, nt = 0;
        {
            // a vector compared with itself: same object, same storage — still an element-wise comparison
            const Vec &R = A;
            bool self_special = !(ma == ma);
            if ((A == A) != (ma == ma) || (R == A) != (ma == ma) || (A != R) != (ma != ma))
            {
                mc::violation(mc::fmt("C02.%s.compare.self_equality", variant.c_str()), "A=%s: A==A is %d, A!=A is %d; std::vector: %d, %d", name(seqs[ai]).c_str(), (int)(A == A),
                              (int)(A != R), (int)(ma == ma), (int)(ma != ma));
                return;
            }
            if constexpr (Tr::has_less)
                if ((A < R) != (ma < ma))
                {
                    mc::violation(mc::fmt("C02.%s.compare.self_less", variant.c_str()), "A=%s: A<A is %d; std::vector: %d", name(seqs[ai]).c_str(), (int)(A < R), (int)(ma < ma));
                    return;
                }
            n++;
            if (self_special)
                nt++;
            // moved-from / never-filled vectors share the null buffer
            Vec E1, E2;
            std::vector<F> me1, me2;
            if ((E1 == E2) != (me1 == me2) || (E1 != E2) != (me1 != me2) || (A == E1) != (ma == me1))
            {
                mc::violation(mc::fmt("C02.%s.compare.equality", variant.c_str()), "two empty vectors (or A=%s and an empty one) compare differently from std::vector", name(seqs[ai]).c_str());
                return;
            }
        }
        for (auto &sb : seqs)
        {
            Vec B;
            std::vector<F> mb;
            build(sb, B, mb);
            bool special = false; // an element unequal to itself, or equal elements with different images
            for (size_t i = 0; i < std::min(ma.size(), mb.size()); i++)
                if (!(ma[i] == ma[i]) || !(mb[i] == mb[i]) || (ma[i] == mb[i] && memcmp(&ma[i], &mb[i], sizeof(F)) != 0))
                    special = true;
            n++;
            if (special)
                nt++;
            if ((A == B) != (ma == mb) || (A != B) != (ma != mb))
            {
                mc::violation(mc::fmt("C02.%s.compare.equality", variant.c_str()), "A=%s B=%s: A==B is %d, A!=B is %d; std::vector: %d, %d", name(seqs[ai]).c_str(),
                              name(sb).c_str(), (int)(A == B), (int)(A != B), (int)(ma == mb), (int)(ma != mb));
                return;
            }
            // std::vector's operator< itself depends on the language mode when elements are unordered (NaN): up to C++17 it is
            // lexicographical_compare over operator<, from C++20 it is synthesised from operator<=> (an unordered pair makes the
            // whole comparison false).  The statement says "as std::vector" without a language mode, so either answer is accepted;
            // for ordered elements the two definitions coincide.
            if constexpr (Tr::has_less)
                if (((A < B) != (ma < mb) && (A < B) != std::lexicographical_compare(ma.begin(), ma.end(), mb.begin(), mb.end())) ||
                    ((B < A) != (mb < ma) && (B < A) != std::lexicographical_compare(mb.begin(), mb.end(), ma.begin(), ma.end())))
                {
                    mc::violation(mc::fmt("C02.%s.compare.less", variant.c_str()), "A=%s B=%s: A<B is %d, B<A is %d; std::vector: %d, %d", name(seqs[ai]).c_str(), name(sb).c_str(),
                                  (int)(A < B), (int)(B < A), (int)(ma < mb), (int)(mb < ma));
                    return;
                }
            mc::outcome(mc::fmt("%d%d", (int)(ma == mb), (int)(ma < mb)));
        }
        if (nt)
            mc::nontrivial();
        mc::more_cases(n - 1, nt ? nt - 1 : 0);
    }

    // ---------------------------------------------------------------------------------- throwing elements
    template <class Tr> struct ThrowCase
    {
        using T = Tracked;
        using Vec = typename Tr::template vec<T>;
        using CI = typename Vec::const_iterator;
        string variant;
        trk::Registry reg;
        bool bad(const string &op, const char *kind, const string &msg)
        {
            mc::violation(mc::fmt("C02.%s.throwing.%s.%s", variant.c_str(), op.c_str(), kind), "%s", msg.c_str());
            return false;
        }
        // size() == number of live elements, all of them in [0,size); prefix (if given) intact
        bool consistent(const string &op, Vec &v, const std::vector<int> *prefix)
        {
            if (v.capacity() < v.size())
                return bad(op, "capacity_below_size", mc::fmt("capacity()=%zu < size()=%zu after the exception", (size_t)v.capacity(), (size_t)v.size()));
            if (v.data())
            {
                auto z = reg.zones.find((uintptr_t)v.data());
                if (z == reg.zones.end())
                    return bad(op, "buffer_not_from_allocator", "data() is not an allocator block after the exception");
                for (size_t k = 0; k < z->second.n; k++)
                {
                    trk::St s = reg.state((const char *)v.data() + k * sizeof(T));
                    if (k < v.size() && !trk::Registry::live(s))
                        return bad(op, "size_counts_unconstructed_element", mc::fmt("after the exception size()=%zu but element %zu is %s", (size_t)v.size(), k, trk::stname(s)));
                    if (k >= v.size() && trk::Registry::live(s))
                        return bad(op, "live_object_beyond_size", mc::fmt("after the exception size()=%zu but slot %zu holds an %s object", (size_t)v.size(), k, trk::stname(s)));
                }
            }
            else if (v.size())
                return bad(op, "null_buffer", mc::fmt("data()==nullptr with size %zu after the exception", (size_t)v.size()));
            if (prefix)
            {
                if (v.size() < prefix->size())
                    return bad(op, "elements_lost", mc::fmt("size()=%zu after the exception, the %zu elements present before must survive", (size_t)v.size(), prefix->size()));
                for (size_t k = 0; k < prefix->size(); k++)
                    if (value_of(v[k]) != (*prefix)[k])
                        return bad(op, "contents", mc::fmt("element %zu is %d after the exception, it was %d", k, value_of(v[k]), (*prefix)[k]));
            }
            return true;
        }
        // ops: 0 emplace_back(int) 1 push_back(const&) 2 insert(pos,const&) 3 emplace(pos,int) 4 resize(n) 5 copy assignment
        void run(int op, int s, int cap, int a, int k)
        {
            static const char *on[] = {"emplace_back", "push_back", "insert", "emplace", "resize", "copy_assign"};
            string o = on[op];
            reg.prop = "C02";
            trk::Use u(reg);
            reg.begin_op(variant + ".throwing." + o);
            mc::crash_context("C02.%s.throwing.%s.crash", variant.c_str(), o.c_str());
            Vec *X = new Vec(), *Y = new Vec();
            std::vector<int> mx, my;
            X->reserve(cap);
            for (int i = 0; i < s; i++)
            {
                X->emplace_back(i + 1);
                mx.push_back(i + 1);
            }
            for (int i = 0; i < a && op == 5; i++)
            {
                Y->emplace_back(10 + i);
                my.push_back(10 + i);
            }
            bool threw = false;
            {
                T t(7);
                trk::arm_throw(k);
                try
                {
                    switch (op)
                    {
                    case 0:
                        X->emplace_back(7);
                        break;
                    case 1:
                        X->push_back(t);
                        break;
                    case 2:
                        X->insert((CI)(X->data() + a), t);
                        break;
                    case 3:
                        X->emplace((CI)(X->data() + a), 7);
                        break;
                    case 4:
                        X->resize(a);
                        break;
                    case 5:
                        *X = *Y;
                        break;
                    }
                }
                catch (const trk::Boom &)
                {
                    threw = true;
                }
                trk::disarm_throw();
            }
            if (!threw)
            {
                mc::count("no_exception_delivered"); // fewer than k constructions in this operation
                delete X;
                delete Y;
                reg.mute = true;
                return;
            }
            mc::nontrivial();
            // append-like operations keep what was there; a failed assignment only has to stay consistent
            bool keeps = op != 5 && !((op == 2 || op == 3) && a < s);
            if (!consistent(o, *X, keeps ? &mx : nullptr))
                return;
            if (op == 5 && !consistent(o, *Y, &my))
                return;
            reg.begin_op(variant + ".throwing." + o + ".then_destructor");
            delete X;
            delete Y;
            if (reg.live_total())
                bad(o, "elements_left_alive", mc::fmt("%ld element object(s) alive after the vectors were destroyed", reg.live_total()));
            if (reg.alloc_zones())
                bad(o, "buffer_leak", mc::fmt("%ld allocator block(s) outstanding after the vectors were destroyed", reg.alloc_zones()));
            reg.mute = true;
            mc::outcome(mc::fmt("%s/%d", on[op], k));
        }
    };
    template <class Tr> void throwing_body(const string &variant)
    {
        // (op, size 0..3, spare capacity 0..1, argument 0..4, k 1..4)
        int c = mc::choose(6 * 4 * 2 * 5 * 4);
        int k = 1 + c % 4, a = c / 4 % 5, spare = c / 20 % 2, s = c / 40 % 4, op = c / 160;
        mc::describe("%s: size %d capacity %d, op %d arg %d, the %d-th element construction throws", variant.c_str(), s, s + spare, op, a, k);
        if ((op == 2 || op == 3) && a > s)
            throw mc::Skip();
        if (op <= 1 && a != 0)
            throw mc::Skip();
        ThrowCase<Tr> tc;
        tc.variant = variant;
        tc.run(op, s, s + spare, a, k);
    }

    // ---------------------------------------------------------------------------- non-relocatable elements
    // An element that stores its own address (as a short-string buffer pointer or an intrusive node does): it may
    // be copied, moved and assigned, never carried to another place as raw bytes.
    struct SelfRef
    {
        int v;
        const SelfRef *self;
        static long &broken()
        {
            static long n = 0;
            return n;
        }
        SelfRef(int x = 0) : v(x), self(this) {}
        SelfRef(const SelfRef &o) : v(o.value()), self(this) {}
        SelfRef(SelfRef &&o) : v(o.value()), self(this) {}
        SelfRef &operator=(const SelfRef &o)
        {
            v = o.value();
            (void)value();
            return *this;
        }
        ~SelfRef()
        {
            if (self != this)
                broken()++;
            self = nullptr;
        }
        int value() const
        {
            if (self != this)
                broken()++;
            return v;
        }
    };
    // grow one element at a time (the block has to move at some point), then one operation; V is the vector type
    template <class V, bool HasEraseRange> void selfref_body(const string &variant)
    {
        using CI = typename V::const_iterator;
        const int NMAX = 40, NOPS = 8;
        int c = mc::choose(NMAX * 2 * NOPS);
        int op = c % NOPS, grow = c / NOPS % 2, n = 1 + c / NOPS / 2;
        static const char *on[] = {"none", "insert", "emplace", "erase_one", "erase_range", "resize_reserve", "copy", "move"};
        mc::describe("%s: %d self-referential elements through %s, then %s", variant.c_str(), n, grow ? "emplace_back" : "push_back", on[op]);
        mc::nontrivial();
        SelfRef::broken() = 0;
        string o = grow ? "emplace_back" : "push_back";
        mc::crash_context("C02.%s.%s.crash", variant.c_str(), o.c_str());
        auto verify = [&](const string &op, V &v, const std::vector<int> &m) {
            bool ok = v.size() == m.size();
            for (size_t i = 0; ok && i < m.size(); i++)
                if (v[i].value() != m[i])
                    ok = false;
            if (SelfRef::broken())
            {
                mc::violation(mc::fmt("C02.%s.%s.element_relocated_bytewise", variant.c_str(), op.c_str()),
                              "%ld element(s) live at an address they were not constructed at (size %zu): they were carried over as raw bytes", SelfRef::broken(), m.size());
                return false;
            }
            if (!ok)
            {
                mc::violation(mc::fmt("C02.%s.%s.contents", variant.c_str(), op.c_str()), "contents differ from std::vector (size %zu vs %zu)", (size_t)v.size(), m.size());
                return false;
            }
            return true;
        };
        {
            V v;
            std::vector<int> m;
            for (int i = 0; i < n; i++)
            {
                if (grow)
                    v.emplace_back(i + 1);
                else
                    v.push_back(SelfRef(i + 1));
                m.push_back(i + 1);
                if (!verify(o, v, m))
                    return;
            }
            o = on[op];
            mc::crash_context("C02.%s.%s.crash", variant.c_str(), o.c_str());
            size_t mid = m.size() / 2;
            switch (op)
            {
            case 1:
                v.insert((CI)(v.data() + mid), SelfRef(77));
                m.insert(m.begin() + mid, 77);
                break;
            case 2:
                v.emplace((CI)(v.data() + mid), 78);
                m.insert(m.begin() + mid, 78);
                break;
            case 3:
                v.erase(v.begin() + mid);
                m.erase(m.begin() + mid);
                break;
            case 4:
                if constexpr (HasEraseRange)
                {
                    v.erase(v.begin(), v.begin() + mid);
                    m.erase(m.begin(), m.begin() + mid);
                }
                break;
            case 5:
                v.reserve(2 * n + 3);
                v.resize(n + 5);
                m.resize(n + 5);
                break;
            case 6:
            {
                V w(v), x;
                x = v;
                if (!verify(o, w, m) || !verify(o, x, m))
                    return;
                break;
            }
            case 7:
            {
                V w(std::move(v));
                if (!verify(o, w, m))
                    return;
                v = std::move(w);
                break;
            }
            }
            if (!verify(o, v, m))
                return;
            o += ".then_destructor";
        }
        if (SelfRef::broken())
            mc::violation(mc::fmt("C02.%s.destructor.element_relocated_bytewise", variant.c_str()), "%ld element(s) were destroyed at an address they were not constructed at", SelfRef::broken());
        mc::outcome(mc::fmt("%d", op));
    }

    // ------------------------------------------------------------------ emplace with several arguments
    template <class V, class VS> void emplace_multiarg_body(const string &variant)
    {
        using CI = typename V::const_iterator;
        int c = mc::choose(4 * 3 * 3 * 2);
        int count = c % 4, v = 5 + c / 4 % 3, pre = c / 12 % 3, where = c / 36; // where: 0 emplace_back, 1 emplace(begin)
        mc::describe("%s: %s(%d, %d) / (%d, 'x') after %d element(s)", variant.c_str(), where ? "emplace(begin," : "emplace_back(", count, v, count, pre);
        mc::nontrivial();
        mc::crash_context("C02.%s.emplace_multiarg.crash", variant.c_str());
        {
            V vec;
            for (int i = 0; i < pre; i++)
                vec.emplace_back(1, i);
            size_t at = where ? 0 : (size_t)pre;
            if (where)
                vec.emplace((CI)vec.data(), count, v);
            else
                vec.emplace_back(count, v);
            ll::ListLike want(count, v);
            if (vec.size() != (size_t)pre + 1 || !(vec[at] == want))
            {
                mc::violation(mc::fmt("C02.%s.emplace_multiarg.contents", variant.c_str()), "%s(%d, %d) stored %s, T(%d, %d) is %s", where ? "emplace" : "emplace_back", count, v,
                              vec.size() > at ? vec[at].str().c_str() : "nothing", count, v, want.str().c_str());
                return;
            }
        }
        {
            VS vec;
            for (int i = 0; i < pre; i++)
                vec.emplace_back("p");
            size_t at = where ? 0 : (size_t)pre;
            if (where)
                vec.emplace((typename VS::const_iterator)vec.data(), (size_t)count, 'x');
            else
                vec.emplace_back((size_t)count, 'x');
            std::string want((size_t)count, 'x');
            if (vec.size() != (size_t)pre + 1 || vec[at] != want)
            {
                mc::violation(mc::fmt("C02.%s.emplace_multiarg.contents", variant.c_str()), "%s(%d, 'x') on a vector of std::string stored a string of length %zu, std::string(%d, 'x') has %zu",
                              where ? "emplace" : "emplace_back", count, vec.size() > at ? vec[at].size() : (size_t)0, count, want.size());
                return;
            }
        }
        mc::outcome(mc::fmt("%d/%d", count, where));
    }

    // ------------------------------------------------------------------ unusual but legal element types
    // E = trk::Amp (overloaded unary operator&) or trk::MoveOnly: n elements through emplace_back (every push
    // reallocates), then one operation; contents against std::vector<int>, lifetime through the registry.
    template <class Tr, class E, bool Copyable> void unusual_element_body(const string &variant)
    {
        using Vec = typename Tr::template vec<E>;
        using CI = typename Vec::const_iterator;
        const int NOPS = 15;
        int c = mc::choose(5 * NOPS);
        int n = c / NOPS, op = c % NOPS;
        static const char *on[] = {"none", "emplace", "erase_one", "erase_range", "pop_back", "resize_longer", "resize_shorter", "reserve", "clear", "move_ctor", "move_assign",
                                   "copy_ctor", "copy_assign", "push_back", "insert"};
        mc::describe("%s: %d elements through emplace_back, then %s", variant.c_str(), n, on[op]);
        if (!Copyable && op >= 11)
            throw mc::Skip();
        if ((op == 2 || op == 4) && n == 0)
            throw mc::Skip();
        if (op == 3 && !Tr::has_erase_range)
            throw mc::Skip();
        mc::nontrivial();
        LargeCase<Tr, E> lc;
        lc.variant = variant;
        lc.reg.prop = "C02";
        trk::Use u(lc.reg);
        string o = "emplace_back";
        lc.ctx(o);
        Vec *v = new Vec(), *w = nullptr;
        std::vector<int> m, mw;
        for (int i = 0; i < n; i++)
        {
            v->emplace_back(i + 1);
            m.push_back(i + 1);
            if (!lc.check(o, *v, m))
                return;
        }
        size_t mid = m.size() / 2;
        lc.ctx(o = on[op]);
        switch (op)
        {
        case 1:
            v->emplace((CI)(v->data() + mid), 9);
            m.insert(m.begin() + mid, 9);
            break;
        case 2:
            v->erase(v->begin() + mid);
            m.erase(m.begin() + mid);
            break;
        case 3:
            if constexpr (Tr::has_erase_range)
            {
                v->erase(v->begin(), v->begin() + mid);
                m.erase(m.begin(), m.begin() + mid);
            }
            break;
        case 4:
            v->pop_back();
            m.pop_back();
            break;
        case 5:
            v->resize(n + 2);
            m.resize(n + 2);
            break;
        case 6:
            v->resize(n / 2);
            m.resize(n / 2);
            break;
        case 7:
            v->reserve(n + 3);
            break;
        case 8:
            v->clear();
            m.clear();
            break;
        case 9:
            w = new Vec(std::move(*v));
            mw = m;
            m.clear();
            break;
        case 10:
            w = new Vec();
            w->emplace_back(5);
            *w = std::move(*v);
            mw = m;
            m.clear();
            break;
        case 11:
            if constexpr (Copyable)
            {
                w = new Vec(*v);
                mw = m;
            }
            break;
        case 12:
            if constexpr (Copyable)
            {
                w = new Vec();
                w->emplace_back(5);
                *w = *v;
                mw = m;
            }
            break;
        case 13:
            if constexpr (Copyable)
            {
                E e(8);
                v->push_back(e);
                m.push_back(8);
            }
            break;
        case 14:
            if constexpr (Copyable)
            {
                E e(8);
                v->insert((CI)(v->data() + mid), e);
                m.insert(m.begin() + mid, 8);
            }
            break;
        }
        if (!lc.check(o, *v, m) || (w && !lc.check(o, *w, mw)))
            return;
        if (!lc.balance(o, (long)m.size() + (long)mw.size(), (v->data() ? 1 : 0) + (w && w->data() ? 1 : 0)))
            return;
        lc.ctx(o = "destructor");
        delete v;
        delete w;
        lc.balance(o, 0, 0);
        lc.reg.mute = true;
        mc::outcome(mc::fmt("%d/%d", n, op));
    }

    // ------------------------------------------------------------------ ranges of a different, convertible element type
    // vector<To>(const From*, const From*): every element is converted; the source is an exactly-sized heap block.
    template <class Vec, class To, class From> void converting_case(const string &variant, const char *what, size_t len)
    {
        From *src = (From *)malloc(len * sizeof(From) + (len ? 0 : 1));
        std::vector<To> want;
        for (size_t i = 0; i < len; i++)
        {
            src[i] = (From)(i % 2 ? 200 - (int)i : 3 + (int)i * 37);
            want.push_back((To)src[i]);
        }
        mc::crash_context("C02.%s.ctor_range_converting.%s.crash", variant.c_str(), what);
        {
            Vec v((const From *)src, (const From *)src + len);
            bool ok = v.size() == want.size();
            for (size_t i = 0; ok && i < want.size(); i++)
                if (!(v[i] == want[i]))
                    ok = false;
            if (!ok)
                mc::violation(mc::fmt("C02.%s.ctor_range_converting.contents", variant.c_str()), "vector from a range of %zu %s: size %zu (expected %zu) or elements differ from the converted source values", len,
                              what, (size_t)v.size(), want.size());
        }
        free(src);
    }
    template <class Tr> void converting_range_body(const string &variant)
    {
        int c = mc::choose(5 * 8);
        int pair = c / 8;
        size_t len = c % 8 == 7 ? 300 : c % 8;
        mc::describe("%s: pointer range of %zu elements of another type (pair %d)", variant.c_str(), len, pair);
        mc::nontrivial();
        switch (pair)
        {
        case 0:
            converting_case<typename Tr::template vec<double>, double, int>(variant, "int_to_double", len);
            break;
        case 1:
            converting_case<typename Tr::template vec<long>, long, short>(variant, "short_to_long", len);
            break;
        case 2:
            converting_case<typename Tr::template vec<int>, int, unsigned char>(variant, "uchar_to_int", len);
            break;
        case 3:
            converting_case<typename Tr::template vec<float>, float, double>(variant, "double_to_float", len);
            break;
        default:
            converting_case<typename Tr::template vec_default<double>, double, int>(variant, "int_to_double_default_allocator", len);
            break;
        }
        mc::outcome(mc::fmt("%d/%zu", pair, len));
    }

    // ------------------------------------------------------------------ long histories on the same objects
    template <class Tr> void vector_long_history_body(const string &name)
    {
        int c = mc::choose(3 * 3);
        static const int seeds[3] = {1, 5, 11};
        int steps = mc::thorough() ? 300000 : 70000, u = c / 3, seed = seeds[c % 3];
        mc::describe("%s: universe %d, stride seed %d, %d operations on the same two vectors", name.c_str(), u, seed, steps);
        mc::nontrivial();
        if (u == 0)
        {
            VecModel<Tr, Tracked> m(box(), name + "_tracked");
            lh::long_history(m, "C02." + name + "_tracked", steps, seed);
        }
        else if (u == 1)
        {
            VecModel<Tr, int> m(box(), name + "_int");
            lh::long_history(m, "C02." + name + "_int", steps, seed);
        }
        else
        {
            VecModel<Tr, Tracked> m(box_wide(), name + "_tracked");
            lh::long_history(m, "C02." + name + "_tracked", steps, seed);
        }
    }

    template <class Tr> void register_extra()
    {
        string n = Tr::name;
        mc::add_check("extra_" + n + "_double_compare", [n] { float_compare_body<Tr, double>(n + "_double"); });
        mc::add_check("extra_" + n + "_float_compare", [n] { float_compare_body<Tr, float>(n + "_float"); });
        mc::add_check("extra_" + n + "_nonreflexive_compare", [n] { float_compare_body<Tr, Odd>(n + "_nonreflexive"); });
        // self-referential elements: with the tracking allocator and with the container's own default allocator
        mc::add_check("extra_" + n + "_selfref", [n] { selfref_body<typename Tr::template vec<SelfRef>, Tr::has_erase_range>(n + "_selfref"); });
        mc::add_check("extra_" + n + "_selfref_default_allocator", [n] { selfref_body<typename Tr::template vec_default<SelfRef>, Tr::has_erase_range>(n + "_selfref_default_allocator"); });
        mc::add_check("extra_" + n + "_emplace_multiarg", [n] { emplace_multiarg_body<typename Tr::template vec<ll::ListLike>, typename Tr::template vec<std::string>>(n); });
        mc::add_check("extra_" + n + "_address_of_overloaded", [n] { unusual_element_body<Tr, trk::Amp, true>(n + "_address_of_overloaded"); });
        mc::add_check("extra_" + n + "_move_only", [n] { unusual_element_body<Tr, trk::MoveOnly, false>(n + "_move_only"); });
        mc::add_check("extra_" + n + "_converting_range", [n] { converting_range_body<Tr>(n); });
        mc::add_check("extra_" + n + "_long_history", [n] { vector_long_history_body<Tr>(n); });
        mc::add_check("extra_" + n + "_throwing_elements", [n] { throwing_body<Tr>(n + "_tracked"); });
    }
}
