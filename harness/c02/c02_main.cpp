// C02 — igris::vector (vector.h), flat_map, flat_set against std::vector / std::map / std::set.
#include "c02_flat.hpp"
#include "c02_vector.hpp"
#include <igris/container/flat_map.h>
#include <igris/container/flat_set.h>
#include <igris/container/vector.h>
#include <map>
#include <set>

namespace
{
    struct VecTraits
    {
        template <class T> using vec = igris::vector<T, trk::TrackAlloc<T>>;
        static constexpr const char *name = "vector";
        static constexpr bool has_at = true, has_less = true, has_sorted = true, has_il = true, has_list_range = true, has_erase_range = true;
    };

    struct StdMapRef
    {
        std::map<int, int> m;
        void set(int k, int v) { m[k] = v; }
        void index(int k) { (void)m[k]; }
        void insert(int k, int v) { m.insert({k, v}); }
        void clear() { m.clear(); }
        bool agrees(const c02::RefMap &r) const
        {
            return std::vector<std::pair<int, int>>(m.begin(), m.end()) == r.kv;
        }
    };
    struct StdSetRef
    {
        std::set<int> s;
        void insert(int k) { s.insert(k); }
        void clear() { s.clear(); }
        bool agrees(const std::vector<int> &r) const { return std::vector<int>(s.begin(), s.end()) == r; }
    };
}

MC_INIT
{
    c02::register_vectors<VecTraits>();
    // one map (copy/move as round trips through a temporary), long initializer lists
    mc::add_bfs("flat_map", [] {
        return std::unique_ptr<mc::Model>(new c02::MapModel<igris::flat_map<int, int>, StdMapRef>("flat_map", mc::thorough() ? 3 : 2, 3, true));
    });
    // two maps A, B with copy/move between them
#if TIER_THOROUGH // the tier is not known yet when the registration code runs: build.sh passes it
    mc::add_bfs("flat_map_pair", [] { return std::unique_ptr<mc::Model>(new c02::MapModel<igris::flat_map<int, int>, StdMapRef>("flat_map", 2, 2, false)); });
#endif
    mc::add_bfs("flat_set", [] {
        return std::unique_ptr<mc::Model>(new c02::SetModel<igris::flat_set<int>, StdSetRef, true>("flat_set", mc::thorough() ? 4 : 3));
    });
}
MC_MAIN
