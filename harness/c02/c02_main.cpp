// C02 — igris::vector (vector.h) against std::vector: BFS universes. (The large-vector tree checks and the
// flat_map / flat_set universes of the same executable live in c02_main_large.cpp / c02_main_flat.cpp: three
// TUs compile in parallel.)
#include "c02_vector.hpp"
#include <igris/container/vector.h>

namespace
{
    struct VecTraits
    {
        template <class T> using vec = igris::vector<T, trk::TrackAlloc<T>>;
        template <class T> using vec_default = igris::vector<T>; // the header's own default allocator
        static constexpr const char *name = "vector";
        static constexpr bool has_at = true, has_less = true, has_sorted = true, has_il = true, has_list_range = true, has_erase_range = true;
    };

}

MC_INIT { c02::register_vectors<VecTraits>(); }
MC_MAIN
