// C02 — igris::vector (vector.h), flat_map, flat_set against std::vector / std::map / std::set.
#include "c02_flat.hpp"
#include "c02_stdref.hpp"
#include "c02_vector.hpp"
#include <igris/container/flat_map.h>
#include <igris/container/flat_set.h>
#include <igris/container/vector.h>
#include <map>
#include <set>

namespace
{
    struct VecTraits
    {
        template <class T> using vec = igris::vector<T, trk::TrackAlloc<T>>;
        static constexpr const char *name = "vector";
        static constexpr bool has_at = true, has_less = true, has_sorted = true, has_il = true, has_list_range = true, has_erase_range = true;
    };

    using c02::HalfLess;
    template <class Cmp> void register_flat(const std::string &suffix)
    {
        using Map = igris::flat_map<int, int, Cmp>;
        using Set = igris::flat_set<int, Cmp>;
        std::string mn = "flat_map" + suffix, sn = "flat_set" + suffix;
        // one map (copy/move as round trips through a temporary), long initializer lists
        mc::add_bfs(mn, [mn] { return std::unique_ptr<mc::Model>(new c02::MapModel<Map, c02::StdMapRefT<Cmp>, Cmp>(mn, mc::thorough() ? 3 : 2, 3, true)); });
        mc::add_bfs(sn, [sn] { return std::unique_ptr<mc::Model>(new c02::SetModel<Set, c02::StdSetRefT<Cmp>, true, Cmp>(sn, mc::thorough() ? 4 : 3)); });
    }
}

MC_INIT
{
    c02::register_vectors<VecTraits>();
    register_flat<std::less<int>>("");
    register_flat<std::greater<int>>("_greater");
    register_flat<HalfLess>("_half_less");
    // two maps A, B with copy/move between them
#if TIER_THOROUGH // the tier is not known yet when the registration code runs: build.sh passes it
    mc::add_bfs("flat_map_pair", [] { return std::unique_ptr<mc::Model>(new c02::MapModel<igris::flat_map<int, int>, c02::StdMapRefT<>>("flat_map", 2, 2, false)); });
#endif
}
MC_MAIN
