// c02_flat.hpp — BFS models for flat_map<int,int> / flat_set<int> (and the compat/std map/set shims
// that derive from them). Reference: a boring unique-key association list (RefMap); where the host
// <map>/<set> can be included (WithStd) std::map / std::set run alongside and must agree with RefMap.
#pragma once
#include "mc.hpp"
#include <algorithm>
#include <functional>
#include <memory>
#include <tuple>
#include <utility>
#include <stdexcept>
#include <string>
#include <vector>

namespace c02
{
    using std::string;

    // a comparator whose equivalence is coarser than ==: 0~1, 2~3
    struct HalfLess
    {
        bool operator()(int a, int b) const { return a / 2 < b / 2; }
    };
    template <class Cmp> inline bool equiv(int a, int b)
    {
        Cmp c;
        return !c(a, b) && !c(b, a);
    }
    template <class Cmp> inline const char *cmpname();
    template <> inline const char *cmpname<std::less<int>>() { return "less"; }
    template <> inline const char *cmpname<std::greater<int>>() { return "greater"; }
    template <> inline const char *cmpname<HalfLess>() { return "half_less"; }

    // what the statement says a map is: keys unique up to the comparator's equivalence, first insertion wins
    // (and keeps its key), [] default-inserts
    template <class Cmp> struct RefMapT
    {
        std::vector<std::pair<int, int>> kv; // ordered by the comparator
        std::pair<int, int> *find(int k)
        {
            for (auto &e : kv)
                if (equiv<Cmp>(e.first, k))
                    return &e;
            return nullptr;
        }
        bool insert(int k, int v)
        {
            if (find(k))
                return false;
            kv.push_back({k, v});
            std::sort(kv.begin(), kv.end(), [](const std::pair<int, int> &a, const std::pair<int, int> &b) { return Cmp()(a.first, b.first); });
            return true;
        }
        int &index(int k)
        {
            insert(k, 0);
            return find(k)->second;
        }
        size_t size() const { return kv.size(); }
        void clear() { kv.clear(); }
        string str() const
        {
            string s = "{";
            for (auto &e : kv)
                s += mc::fmt("%d:%d ", e.first, e.second);
            return s + "}";
        }
    };
    using RefMap = RefMapT<std::less<int>>;

    struct NoStdMap // placeholder where the host <map> cannot be included (shim TU)
    {
        void set(int, int) {}
        void index(int) {}
        void insert(int, int) {}
        void clear() {}
        template <class R> bool agrees(const R &) const { return true; }
    };

    enum MKind
    {
        M_INDEX_WRITE,
        M_INDEX_READ,
        M_INSERT,
        M_EMPLACE,
        M_AT_WRITE,
        M_CLEAR,
        M_COPY_ASSIGN,
        M_MOVE_ASSIGN,
        M_COPY_CTOR,
        M_MOVE_CTOR,
        M_CTOR_IL,
        M_DEFAULT_CTOR,
        M_AT_ABSENT, // observer with an exception: its own state-preserving operation (run once per state)
        M_INSERT_RVALUE, // insert(value_type(k, v)) — appended: earlier indices keep their meaning
        M_INDEX_RVALUE_KEY // X[int(k)] = v
    };
    inline const char *mkname(int k)
    {
        static const char *n[] = {"index_write", "index_read", "insert", "emplace", "at_write", "clear", "copy_assign",
                                  "move_assign", "copy_ctor", "move_ctor", "ctor_initlist", "default_ctor", "at_absent", "insert_rvalue", "index_write_rvalue_key"};
        return n[k];
    }

    template <class Map, class StdRef, class Cmp = std::less<int>> struct MapModel : mc::Model
    {
        struct Op
        {
            int kind, x, a, b;
        };
        struct Tables
        {
            std::vector<Op> ops;
            std::vector<std::vector<std::pair<int, int>>> lists;
            std::vector<string> names;
        };
        string variant;
        int NK = 3, NV;
        bool single; // one object; copy/move operations are round trips through a temporary
        std::shared_ptr<Tables> tab;
        const std::vector<Op> &ops;
        const std::vector<std::vector<std::pair<int, int>>> &lists;
        Map *obj[2];
        using Ref = RefMapT<Cmp>;
        Ref ref[2];
        StdRef sref[2];

        static std::shared_ptr<Tables> tables(int NK, int NV, int maxlist, bool single)
        {
            // (no <map> here: the compat/std/map TU cannot see the host header)
            static std::vector<std::pair<std::tuple<int, int, int, bool>, std::shared_ptr<Tables>>> cache;
            auto id = std::make_tuple(NK, NV, maxlist, single);
            for (auto &e : cache)
                if (e.first == id)
                    return e.second;
            cache.push_back({id, std::make_shared<Tables>()});
            auto slot = cache.back().second;
            auto &ops = slot->ops;
            auto &lists = slot->lists;
            lists.push_back({});
            for (size_t i = 0; i < lists.size(); i++)
                if ((int)lists[i].size() < maxlist)
                    for (int k = 0; k < NK; k++)
                        for (int v = 0; v < NV; v++)
                        {
                            auto l = lists[i];
                            l.push_back({k, v});
                            lists.push_back(l);
                        }
            for (int x = 0; x < (single ? 1 : 2); x++)
            {
                for (int k = 0; k < NK; k++)
                {
                    ops.push_back({M_INDEX_READ, x, k, 0});
                    ops.push_back({M_AT_ABSENT, x, k, 0});
                    for (int v = 0; v < NV; v++)
                        for (int kind : {M_INDEX_WRITE, M_INSERT, M_EMPLACE, M_AT_WRITE})
                            ops.push_back({kind, x, k, v});
                }
                for (int kind : {M_CLEAR, M_COPY_ASSIGN, M_MOVE_ASSIGN, M_COPY_CTOR, M_MOVE_CTOR, M_DEFAULT_CTOR})
                    ops.push_back({kind, x, 0, 0});
                for (int i = 0; i < (int)lists.size(); i++)
                    ops.push_back({M_CTOR_IL, x, i, 0});
            }
            for (int x = 0; x < (single ? 1 : 2); x++) // appended after everything else
                for (int k = 0; k < NK; k++)
                    for (int v = 0; v < NV; v++)
                        for (int kind : {M_INSERT_RVALUE, M_INDEX_RVALUE_KEY})
                            ops.push_back({kind, x, k, v});
            slot->names.resize(ops.size());
            return slot;
        }
        MapModel(const string &var, int nv, int maxlist, bool single_)
            : variant(var), NV(nv), single(single_), tab(tables(NK, nv, maxlist, single_)), ops(tab->ops), lists(tab->lists)
        {
            obj[0] = new Map();
            obj[1] = new Map();
        }
        ~MapModel()
        {
            delete obj[0];
            delete obj[1];
        }
        int nops() override { return (int)ops.size(); }
        bool recreates(int o) const
        {
            int k = ops[o].kind;
            return k == M_COPY_CTOR || k == M_MOVE_CTOR || k == M_CTOR_IL || k == M_DEFAULT_CTOR;
        }
        static string lstr(const std::vector<std::pair<int, int>> &l)
        {
            string s = "{";
            for (auto &e : l)
                s += mc::fmt("{%d,%d}", e.first, e.second);
            return s + "}";
        }
        string opname(int o) override
        {
            if (tab->names[o].empty())
                tab->names[o] = opname_(o);
            return tab->names[o];
        }
        string opname_(int o)
        {
            const Op &p = ops[o];
            const char *X = p.x ? "B" : "A", *Y = p.x ? "A" : "B";
            switch (p.kind)
            {
            case M_INDEX_WRITE:
                return mc::fmt("%s[%d] = %d", X, p.a, p.b);
            case M_INDEX_READ:
                return mc::fmt("(void)%s[%d]", X, p.a);
            case M_INSERT:
                return mc::fmt("%s.insert({%d,%d})", X, p.a, p.b);
            case M_EMPLACE:
                return mc::fmt("%s.emplace(%d,%d)", X, p.a, p.b);
            case M_AT_WRITE:
                return mc::fmt("%s.at(%d) = %d", X, p.a, p.b);
            case M_CLEAR:
                return mc::fmt("%s.clear()", X);
            case M_COPY_ASSIGN:
                return single ? string("t = A; A.clear(); A = t") : mc::fmt("%s = %s", X, Y);
            case M_MOVE_ASSIGN:
                return single ? string("t = std::move(A); A = std::move(t)") : mc::fmt("%s = std::move(%s)", X, Y);
            case M_COPY_CTOR:
                return single ? string("t = map(A); A' = map(t)") : mc::fmt("%s' = map(%s)", X, Y);
            case M_MOVE_CTOR:
                return single ? string("A' = map(std::move(A))") : mc::fmt("%s' = map(std::move(%s))", X, Y);
            case M_CTOR_IL:
                return mc::fmt("%s' = map%s", X, lstr(lists[p.a]).c_str());
            case M_DEFAULT_CTOR:
                return mc::fmt("%s' = map()", X);
            case M_AT_ABSENT:
                return mc::fmt("%s.at(%d) with the key absent", X, p.a);
            case M_INSERT_RVALUE:
                return mc::fmt("%s.insert(value_type(%d,%d))", X, p.a, p.b);
            case M_INDEX_RVALUE_KEY:
                return mc::fmt("%s[int(%d)] = %d", X, p.a, p.b);
            }
            return "?";
        }
        // The list is written as a braced list at the call site — the one spelling that the real std::map, flat_map
        // and any std-conforming shim signature (initializer_list<pair<K,V>> as well as <pair<const K,V>>) accept.
        template <size_t... I> static Map *braced(const std::vector<std::pair<int, int>> &v, std::index_sequence<I...>)
        {
            return new Map{{v[I].first, v[I].second}...};
        }
        Map *make_il(const std::vector<std::pair<int, int>> &v)
        {
            switch (v.size())
            {
            case 0:
                return new Map(std::initializer_list<typename Map::value_type>{});
            case 1:
                return braced(v, std::make_index_sequence<1>());
            case 2:
                return braced(v, std::make_index_sequence<2>());
            case 3:
                return braced(v, std::make_index_sequence<3>());
            }
            mc::harness_error("make_il: length %zu", v.size());
        }
        void bad(const string &op, const char *kind, const string &msg)
        {
            mc::violation(mc::fmt("C02.%s.%s.%s", variant.c_str(), op.c_str(), kind), "%s", msg.c_str());
        }
        bool apply(int o) override
        {
            fflush(nullptr); // see c02_vector.hpp
            const Op p = ops[o];
            Map &X = *obj[p.x], &Y = *obj[1 - p.x];
            Ref &rx = ref[p.x], &ry = ref[1 - p.x];
            StdRef &sx = sref[p.x], &sy = sref[1 - p.x];
            string op = mkname(p.kind);
            bool present = rx.find(p.a) != nullptr;
            mc::crash_context("C02.%s.%s.crash", variant.c_str(), op.c_str());
            switch (p.kind)
            {
            case M_INDEX_WRITE:
            case M_INDEX_RVALUE_KEY:
                op += present ? ".present" : ".absent";
                if (p.kind == M_INDEX_RVALUE_KEY)
                    X[int(p.a)] = p.b;
                else
                    X[p.a] = p.b;
                rx.index(p.a) = p.b;
                sx.set(p.a, p.b);
                if (present)
                    mc::nontrivial();
                break;
            case M_INDEX_READ:
            {
                op += present ? ".present" : ".absent";
                int got = X[p.a];
                int want = rx.index(p.a);
                sx.index(p.a);
                if (got != want)
                    bad(op, "value", mc::fmt("operator[](%d) returned %d, std::map %d", p.a, got, want));
                if (!present)
                    mc::nontrivial();
                break;
            }
            case M_INSERT:
            case M_INSERT_RVALUE:
            {
                op += present ? ".present" : ".absent";
                typename Map::value_type val(p.a, p.b);
                auto it = p.kind == M_INSERT_RVALUE ? X.insert(typename Map::value_type(p.a, p.b)) : X.insert(val);
                rx.insert(p.a, p.b);
                sx.insert(p.a, p.b);
                if (it == X.end() || it->first != rx.find(p.a)->first || it->second != rx.find(p.a)->second)
                    bad(op, "return_value", mc::fmt("insert({%d,%d}) did not return an iterator to the element with that key", p.a, p.b));
                if (present)
                    mc::nontrivial();
                break;
            }
            case M_EMPLACE:
            {
                op += present ? ".present" : ".absent";
                auto r = X.emplace(p.a, p.b);
                bool ins = rx.insert(p.a, p.b);
                sx.insert(p.a, p.b);
                if (r.second != ins || r.first == X.end() || r.first->first != rx.find(p.a)->first || r.first->second != rx.find(p.a)->second)
                    bad(op, "return_value", mc::fmt("emplace(%d,%d) returned (.., %d), std::map (.., %d)", p.a, p.b, (int)r.second, (int)ins));
                if (present)
                    mc::nontrivial();
                break;
            }
            case M_AT_WRITE:
                if (!present)
                    return false; // the throwing case is an observer (see check)
                try
                {
                    X.at(p.a) = p.b;
                }
                catch (const std::out_of_range &)
                {
                    bad(op, "threw_for_present_key", mc::fmt("at(%d) threw although std::map%s holds an equivalent key", p.a, rx.str().c_str()));
                    return true;
                }
                rx.find(p.a)->second = p.b;
                sx.set(p.a, p.b);
                break;
            case M_CLEAR:
                X.clear();
                rx.clear();
                sx.clear();
                break;
            case M_COPY_ASSIGN:
                if (single)
                {
                    Map t;
                    t = X;
                    X.clear();
                    X = t;
                    break;
                }
                X = Y;
                rx = ry;
                sx = sy;
                break;
            case M_MOVE_ASSIGN:
                if (single)
                {
                    Map t;
                    t = std::move(X);
                    X = std::move(t);
                    break;
                }
                X = std::move(Y);
                rx = ry;
                sx = sy;
                ry.clear();
                sy.clear();
                break;
            case M_COPY_CTOR:
            {
                if (single)
                {
                    Map t(X);
                    Map *n = new Map(t);
                    delete obj[p.x];
                    obj[p.x] = n;
                    break;
                }
                Map *n = new Map(Y);
                delete obj[p.x];
                obj[p.x] = n;
                rx = ry;
                sx = sy;
                break;
            }
            case M_MOVE_CTOR:
            {
                if (single)
                {
                    Map *n = new Map(std::move(X));
                    delete obj[p.x];
                    obj[p.x] = n;
                    break;
                }
                Map *n = new Map(std::move(Y));
                delete obj[p.x];
                obj[p.x] = n;
                rx = ry;
                sx = sy;
                ry.clear();
                sy.clear();
                break;
            }
            case M_DEFAULT_CTOR:
            {
                delete obj[p.x];
                obj[p.x] = new Map();
                rx.clear();
                sx.clear();
                break;
            }
            case M_AT_ABSENT:
            {
                if (present)
                    return false;
                const Map &CX = X;
                for (int cst = 0; cst < 2; cst++)
                {
                    bool threw = false;
                    try
                    {
                        (void)(cst ? CX.at(p.a) : X.at(p.a));
                    }
                    catch (const std::out_of_range &)
                    {
                        threw = true;
                    }
                    if (!threw)
                        bad(cst ? "at_const" : "at", "no_throw", mc::fmt("at(%d) on a map without that key did not throw std::out_of_range", p.a));
                }
                mc::nontrivial();
                break;
            }
            case M_CTOR_IL:
            {
                const auto &l = lists[p.a];
                bool dup = false;
                for (size_t i = 0; i < l.size(); i++)
                    for (size_t j = 0; j < i; j++)
                        if (l[i].first == l[j].first)
                            dup = true;
                op += dup ? ".duplicate_keys" : ".distinct_keys";
                if (dup)
                    mc::nontrivial();
                Map *n = make_il(l);
                delete obj[p.x];
                obj[p.x] = n;
                rx.clear();
                sx.clear();
                for (auto &e : l)
                {
                    rx.insert(e.first, e.second);
                    sx.insert(e.first, e.second);
                }
                break;
            }
            }
            for (int i = 0; i < 2; i++)
                if (!sref[i].agrees(ref[i]))
                    mc::harness_error("RefMap and std::map disagree after %s", opname(o).c_str());
            check(op);
            return true;
        }
        void check(const string &op)
        {
            mc::crash_context("C02.%s.%s.observe.crash", variant.c_str(), op.c_str());
            for (int i = 0; i < 2; i++)
            {
                Map &m = *obj[i];
                const Map &cm = m;
                Ref &r = ref[i];
                const char *nm = i ? "B" : "A";
                if (m.size() != r.size() || m.empty() != (r.size() == 0))
                    bad(op, "size", mc::fmt("%s.size()=%zu, std::map%s has %zu", nm, (size_t)m.size(), r.str().c_str(), r.size()));
                for (int k = 0; k <= NK; k++)
                {
                    std::pair<int, int> *we = r.find(k); // the element equivalent to k under the comparator
                    int *want = we ? &we->second : nullptr;
                    size_t c = cm.count(k);
                    if (c != (want ? 1u : 0u))
                        bad(op, "count", mc::fmt("%s.count(%d)=%zu, std::map%s says %d", nm, k, c, r.str().c_str(), want ? 1 : 0));
                    auto it = m.find(k);
                    auto cit = cm.find(k);
                    bool f = it != m.end(), cf = cit != cm.end();
                    if (f != (want != nullptr) || cf != f || (f && (it->first != we->first || it->second != *want)) || (cf && (cit->first != we->first || cit->second != *want)))
                        bad(op, "find", mc::fmt("%s.find(%d): found=%d value=%d, std::map%s", nm, k, (int)f, f ? it->second : -1, r.str().c_str()));
                    if (want && f) // (a wrong find() has been reported above)
                    {
                        try
                        {
                            if (m.at(k) != *want || cm.at(k) != *want)
                                bad(op, "at", mc::fmt("%s.at(%d)=%d, std::map%s", nm, k, m.at(k), r.str().c_str()));
                        }
                        catch (const std::out_of_range &)
                        {
                            bad(op, "at", mc::fmt("%s.at(%d) threw, std::map%s", nm, k, r.str().c_str()));
                        }
                        if (cm[k] != *want) // const operator[]: present keys only (no std::map counterpart otherwise)
                            bad(op, "const_index", mc::fmt("const %s[%d]=%d, std::map%s", nm, k, cm[k], r.str().c_str()));
                    }
                }
                mc::outcome(r.str());
            }
        }
        string key() override
        {
            string k;
            for (int i = 0; i < 2; i++)
            {
                for (auto it = obj[i]->begin(); it != obj[i]->end(); ++it)
                    k += mc::fmt("%d:%d,", it->first, it->second);
                k += "=" + ref[i].str() + "|";
            }
            return k;
        }
    };

    // ---------------------------------------------------------------- sets
    struct NoStdSet
    {
        void insert(int) {}
        void clear() {}
        bool agrees(const std::vector<int> &) const { return true; }
    };
    enum SKind
    {
        S_INSERT,
        S_CLEAR,
        S_COPY_ASSIGN,
        S_MOVE_ASSIGN,
        S_COPY_CTOR,
        S_MOVE_CTOR,
        S_DEFAULT_CTOR,
        S_COMPARE_CTOR,
        S_INSERT_RVALUE // insert(int(k)) — appended
    };
    template <class Set, class StdRef, bool HasCompareCtor, class Cmp = std::less<int>> struct SetModel : mc::Model
    {
        struct Op
        {
            int kind, x, a;
        };
        string variant;
        int NK;
        std::vector<Op> ops;
        Set *obj[2];
        std::vector<int> ref[2]; // sorted unique
        StdRef sref[2];
        SetModel(const string &var, int nk) : variant(var), NK(nk)
        {
            obj[0] = new Set();
            obj[1] = new Set();
            for (int x = 0; x < 2; x++)
            {
                for (int k = 0; k < NK; k++)
                    ops.push_back({S_INSERT, x, k});
                for (int kind : {S_CLEAR, S_COPY_ASSIGN, S_MOVE_ASSIGN, S_COPY_CTOR, S_MOVE_CTOR, S_DEFAULT_CTOR})
                    ops.push_back({kind, x, 0});
                if (HasCompareCtor)
                    ops.push_back({S_COMPARE_CTOR, x, 0});
            }
            for (int x = 0; x < 2; x++) // appended after everything else
                for (int k = 0; k < NK; k++)
                    ops.push_back({S_INSERT_RVALUE, x, k});
        }
        ~SetModel()
        {
            delete obj[0];
            delete obj[1];
        }
        int nops() override { return (int)ops.size(); }
        bool recreates(int o) const
        {
            int k = ops[o].kind;
            return k == S_COPY_CTOR || k == S_MOVE_CTOR || k == S_DEFAULT_CTOR || k == S_COMPARE_CTOR;
        }
        static const char *skname(int k)
        {
            static const char *n[] = {"insert", "clear", "copy_assign", "move_assign", "copy_ctor", "move_ctor", "default_ctor", "compare_ctor", "insert_rvalue"};
            return n[k];
        }
        string opname(int o) override
        {
            const Op &p = ops[o];
            return mc::fmt("%s.%s(%d)", p.x ? "B" : "A", skname(p.kind), p.a);
        }
        static string sstr(const std::vector<int> &v)
        {
            string s = "{";
            for (int x : v)
                s += mc::fmt("%d ", x);
            return s + "}";
        }
        bool apply(int o) override
        {
            fflush(nullptr); // see c02_vector.hpp
            const Op p = ops[o];
            Set &X = *obj[p.x], &Y = *obj[1 - p.x];
            auto &rx = ref[p.x], &ry = ref[1 - p.x];
            StdRef &sx = sref[p.x], &sy = sref[1 - p.x];
            string op = skname(p.kind);
            mc::crash_context("C02.%s.%s.crash", variant.c_str(), op.c_str());
            switch (p.kind)
            {
            case S_INSERT:
            case S_INSERT_RVALUE:
            {
                bool present = std::find_if(rx.begin(), rx.end(), [&](int e) { return equiv<Cmp>(e, p.a); }) != rx.end();
                op += present ? ".present" : ".absent";
                if (present || (!rx.empty() && Cmp()(p.a, rx.back())))
                    mc::nontrivial();
                if (p.kind == S_INSERT_RVALUE)
                    X.insert(int(p.a));
                else
                    X.insert(p.a);
                if (!present)
                {
                    rx.push_back(p.a);
                    std::sort(rx.begin(), rx.end(), Cmp());
                }
                sx.insert(p.a);
                break;
            }
            case S_CLEAR:
                X.clear();
                rx.clear();
                sx.clear();
                break;
            case S_COPY_ASSIGN:
                X = Y;
                rx = ry;
                sx = sy;
                break;
            case S_MOVE_ASSIGN:
                X = std::move(Y);
                rx = ry;
                sx = sy;
                ry.clear();
                sy.clear();
                break;
            case S_COPY_CTOR:
            {
                Set *n = new Set(Y);
                delete obj[p.x];
                obj[p.x] = n;
                rx = ry;
                sx = sy;
                break;
            }
            case S_MOVE_CTOR:
            {
                Set *n = new Set(std::move(Y));
                delete obj[p.x];
                obj[p.x] = n;
                rx = ry;
                sx = sy;
                ry.clear();
                sy.clear();
                break;
            }
            case S_DEFAULT_CTOR:
                delete obj[p.x];
                obj[p.x] = new Set();
                rx.clear();
                sx.clear();
                break;
            case S_COMPARE_CTOR:
                if constexpr (HasCompareCtor)
                {
                    delete obj[p.x];
                    obj[p.x] = new Set(typename Set::key_compare());
                    rx.clear();
                    sx.clear();
                    break;
                }
                return false;
            }
            for (int i = 0; i < 2; i++)
                if (!sref[i].agrees(ref[i]))
                    mc::harness_error("reference set and std::set disagree after %s", opname(o).c_str());
            mc::crash_context("C02.%s.%s.observe.crash", variant.c_str(), op.c_str());
            for (int i = 0; i < 2; i++)
            {
                const Set &cs = *obj[i];
                const char *nm = i ? "B" : "A";
                if (cs.size() != ref[i].size())
                    mc::violation(mc::fmt("C02.%s.%s.size", variant.c_str(), op.c_str()), "%s.size()=%zu, std::set%s", nm, (size_t)cs.size(), sstr(ref[i]).c_str());
                for (int k = 0; k <= NK; k++)
                {
                    size_t want = std::find_if(ref[i].begin(), ref[i].end(), [&](int e) { return equiv<Cmp>(e, k); }) != ref[i].end();
                    if (cs.count(k) != want)
                        mc::violation(mc::fmt("C02.%s.%s.count", variant.c_str(), op.c_str()), "%s.count(%d)=%zu, std::set%s", nm, k, (size_t)cs.count(k), sstr(ref[i]).c_str());
                }
                mc::outcome(sstr(ref[i]));
            }
            return true;
        }
        string key() override
        {
            string k;
            for (int i = 0; i < 2; i++)
            {
                for (auto it = obj[i]->begin(); it != obj[i]->end(); ++it)
                    k += mc::fmt("%d,", *it);
                k += "=" + sstr(ref[i]) + "|";
            }
            return k;
        }
    };
}
