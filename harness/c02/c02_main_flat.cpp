// C02 — flat_map / flat_set against std::map / std::set (BFS universes and large tree checks). Linked into c02_main.
#include "c02_flat.hpp"
#include "c02_flat_large.hpp"
#include "c02_stdref.hpp"
#include <igris/container/flat_map.h>
#include <igris/container/flat_set.h>

namespace
{
    using c02::HalfLess;
    template <class Cmp> void register_flat(const std::string &suffix)
    {
        using Map = igris::flat_map<int, int, Cmp>;
        using Set = igris::flat_set<int, Cmp>;
        std::string mn = "flat_map" + suffix, sn = "flat_set" + suffix;
        // one map (copy/move as round trips through a temporary), long initializer lists
        mc::add_bfs(mn, [mn] { return std::unique_ptr<mc::Model>(new c02::MapModel<Map, c02::StdMapRefT<Cmp>, Cmp>(mn, mc::thorough() ? 3 : 2, 3, true)); });
        mc::add_bfs(sn, [sn] { return std::unique_ptr<mc::Model>(new c02::SetModel<Set, c02::StdSetRefT<Cmp>, true, Cmp>(sn, mc::thorough() ? 4 : 3)); });
        mc::add_check(mn + "_large", [mn] { c02::large_map_body<Map, c02::StdMapRefT<Cmp>, Cmp>(mn); });
        mc::add_check(mn + "_long_history", [mn] { c02::map_long_history_body<Map, c02::StdMapRefT<Cmp>, Cmp>(mn); });
        mc::add_check(mn + "_long_initlist", [mn] { c02::long_initlist_body<Map, c02::StdMapRefT<Cmp>, Cmp>(mn); });
        mc::add_check(sn + "_large", [sn] { c02::large_set_body<Set, c02::StdSetRefT<Cmp>, Cmp>(sn); });
    }
}

MC_INIT
{
    register_flat<std::less<int>>("");
    register_flat<std::greater<int>>("_greater");
    register_flat<HalfLess>("_half_less");
    mc::add_check("flat_map_record_key", [] { c02::rec_key_body<igris::flat_map<c02::Rec, int>, c02::StdRecRef>("flat_map"); });
    // two maps A, B with copy/move between them
#if TIER_THOROUGH // the tier is not known yet when the registration code runs: build.sh passes it
    mc::add_bfs("flat_map_pair", [] { return std::unique_ptr<mc::Model>(new c02::MapModel<igris::flat_map<int, int>, c02::StdMapRefT<>>("flat_map", 2, 2, false)); });
#endif
}
