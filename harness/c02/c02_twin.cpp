// C02 — the std_portable.h twin of igris::vector (own executable: it redefines igris::vector).
#include "c02_extra.hpp"
#include "c02_large.hpp"
#include "c02_vector.hpp"
#include <igris/container/std_portable.h>

namespace
{
    struct TwinTraits
    {
        template <class T> using vec = igris::vector<T, trk::TrackAlloc<T>>;
        template <class T> using vec_default = igris::vector<T>; // the header's own default allocator
        static constexpr const char *name = "portable_vector";
        static constexpr bool has_at = false, has_less = false, has_sorted = false, has_il = false, has_list_range = false, has_erase_range = TWIN_HAS_ERASE_RANGE;
    };
}
MC_INIT
{
    c02::register_vectors<TwinTraits>();
    c02::register_large_vectors<TwinTraits>();
    c02::register_extra<TwinTraits>();
}
MC_MAIN
