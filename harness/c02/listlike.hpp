// listlike.hpp — an element type with both an (count, value) constructor and an initializer_list constructor
// (as std::vector<int> and std::string have): T(3, 7) is {7,7,7}, T{3, 7} is {3,7}. emplace / emplace_back
// are specified to construct with T(args...), never T{args...}.
#pragma once
#include <initializer_list>
#include <string>

namespace ll
{
    struct ListLike
    {
        int n = 0;
        int vals[6] = {0, 0, 0, 0, 0, 0};
        ListLike() = default;
        ListLike(int count, int v) : n(count)
        {
            for (int i = 0; i < count && i < 6; i++)
                vals[i] = v;
        }
        ListLike(std::initializer_list<int> l) : n((int)l.size())
        {
            int i = 0;
            for (int x : l)
                if (i < 6)
                    vals[i++] = x;
        }
        friend bool operator==(const ListLike &a, const ListLike &b)
        {
            if (a.n != b.n)
                return false;
            for (int i = 0; i < 6; i++)
                if (a.vals[i] != b.vals[i])
                    return false;
            return true;
        }
        std::string str() const
        {
            std::string s = "{";
            for (int i = 0; i < n && i < 6; i++)
                s += std::to_string(vals[i]) + " ";
            return s + "}";
        }
    };
}
