// single_pass.hpp — a genuine input iterator: category std::input_iterator_tag, single pass. All copies of
// the iterator share one source; ++ on any copy consumes the next element for all of them (the behaviour of
// std::istream_iterator over one stream), so an algorithm that walks the range to measure it (std::distance)
// has drained it. Dereferencing a position that has already been passed is impossible by construction;
// dereferencing the end or advancing past it is reported.
#pragma once
#include "mc.hpp"
#include <cstddef>
#include <iterator>
#include <vector>

namespace sp
{
    struct Source
    {
        std::vector<int> values;
        size_t pos = 0;       // next element to hand out
        size_t derefs = 0;    // number of operator* calls
        bool misuse = false;  // dereferenced / advanced at the end
    };
    template <class T> struct InputIt
    {
        using iterator_category = std::input_iterator_tag;
        using value_type = T;
        using difference_type = std::ptrdiff_t;
        using pointer = const T *;
        using reference = T;
        Source *src = nullptr; // nullptr: the end iterator
        bool at_end() const { return !src || src->pos >= src->values.size(); }
        T operator*() const
        {
            if (at_end())
            {
                if (src)
                    src->misuse = true;
                return T(-99);
            }
            src->derefs++;
            return T(src->values[src->pos]);
        }
        InputIt &operator++()
        {
            if (at_end())
            {
                if (src)
                    src->misuse = true;
                return *this;
            }
            src->pos++;
            return *this;
        }
        InputIt operator++(int)
        {
            InputIt c = *this;
            ++*this;
            return c;
        }
        friend bool operator==(const InputIt &a, const InputIt &b) { return a.at_end() == b.at_end(); }
        friend bool operator!=(const InputIt &a, const InputIt &b) { return !(a == b); }
    };
}
