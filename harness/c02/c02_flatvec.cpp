// C02 — flat_map / flat_set on top of igris::vector. In an embedded build <vector> is compat/std/vector,
// i.e. `std::vector` *is* igris::vector, and flat_map/flat_set store their elements in it. The host
// <vector> cannot be replaced wholesale, so this TU re-points only the name std::vector inside the two
// headers: `std` is #defined to a namespace that re-exports all of std but declares vector as the
// igris::vector alias compat/std/vector declares. Every header they include is included beforehand.
#include "c02_flat.hpp"
#include "c02_flat_large.hpp"
#include "c02_stdref.hpp"
#include "tracked.hpp"
#include <algorithm>
#include <cassert>
#include <functional>
#include <igris/compiler.h>
#include <igris/container/vector.h>
#include <iterator>
#include <map>
#include <memory>
#include <set>
#include <stdexcept>
#include <type_traits>
#include <utility>
#include <vector>

namespace shimstd
{
    using namespace std;
    template <class T, class Alloc = std::allocator<T>> using vector = igris::vector<T, Alloc>; // == compat/std/vector
}
#define std shimstd
#include <igris/container/flat_map.h>
#include <igris/container/flat_set.h>
#undef std

namespace
{
    template <class Cmp> void register_flat(const std::string &suffix)
    {
        using Map = igris::flat_map<int, int, Cmp, trk::TrackAlloc<std::pair<int, int>>>;
        using Set = igris::flat_set<int, Cmp, trk::TrackAlloc<int>>;
        std::string mn = "flat_map_on_igris_vector" + suffix, sn = "flat_set_on_igris_vector" + suffix;
        mc::add_bfs(mn, [mn] { return std::unique_ptr<mc::Model>(new c02::MapModel<Map, c02::StdMapRefT<Cmp>, Cmp>(mn, mc::thorough() ? 3 : 2, 3, true)); });
        mc::add_bfs(sn, [sn] { return std::unique_ptr<mc::Model>(new c02::SetModel<Set, c02::StdSetRefT<Cmp>, true, Cmp>(sn, mc::thorough() ? 4 : 3)); });
        mc::add_check(mn + "_large", [mn] { c02::large_map_body<Map, c02::StdMapRefT<Cmp>, Cmp>(mn); });
        mc::add_check(mn + "_long_history", [mn] { c02::map_long_history_body<Map, c02::StdMapRefT<Cmp>, Cmp>(mn); });
        mc::add_check(mn + "_long_initlist", [mn] { c02::long_initlist_body<Map, c02::StdMapRefT<Cmp>, Cmp>(mn); });
        mc::add_check(sn + "_large", [sn] { c02::large_set_body<Set, c02::StdSetRefT<Cmp>, Cmp>(sn); });
    }
}

MC_INIT
{
    register_flat<std::less<int>>("");
    register_flat<std::greater<int>>("_greater");
    register_flat<c02::HalfLess>("_half_less");
    mc::add_check("flat_map_on_igris_vector_record_key", [] {
        c02::rec_key_body<igris::flat_map<c02::Rec, int, std::less<c02::Rec>, trk::TrackAlloc<std::pair<c02::Rec, int>>>, c02::StdRecRef>("flat_map_on_igris_vector");
    });
}
MC_MAIN
