// C02 — flat_map / flat_set on top of igris::vector. In an embedded build <vector> is compat/std/vector,
// i.e. `std::vector` *is* igris::vector, and flat_map/flat_set store their elements in it. The host
// <vector> cannot be replaced wholesale, so this TU re-points only the name std::vector inside the two
// headers: `std` is #defined to a namespace that re-exports all of std but declares vector as the
// igris::vector alias compat/std/vector declares. Every header they include is included beforehand.
#include "c02_flat.hpp"
#include "tracked.hpp"
#include <algorithm>
#include <cassert>
#include <functional>
#include <igris/compiler.h>
#include <igris/container/vector.h>
#include <iterator>
#include <map>
#include <memory>
#include <set>
#include <stdexcept>
#include <type_traits>
#include <utility>
#include <vector>

namespace shimstd
{
    using namespace std;
    template <class T, class Alloc = std::allocator<T>> using vector = igris::vector<T, Alloc>; // == compat/std/vector
}
#define std shimstd
#include <igris/container/flat_map.h>
#include <igris/container/flat_set.h>
#undef std

namespace
{
    struct StdMapRef
    {
        std::map<int, int> m;
        void set(int k, int v) { m[k] = v; }
        void index(int k) { (void)m[k]; }
        void insert(int k, int v) { m.insert({k, v}); }
        void clear() { m.clear(); }
        bool agrees(const c02::RefMap &r) const { return std::vector<std::pair<int, int>>(m.begin(), m.end()) == r.kv; }
    };
    struct StdSetRef
    {
        std::set<int> s;
        void insert(int k) { s.insert(k); }
        void clear() { s.clear(); }
        bool agrees(const std::vector<int> &r) const { return std::vector<int>(s.begin(), s.end()) == r; }
    };
    using Map = igris::flat_map<int, int, std::less<int>, trk::TrackAlloc<std::pair<int, int>>>;
    using Set = igris::flat_set<int, std::less<int>, trk::TrackAlloc<int>>;
}

MC_INIT
{
    mc::add_bfs("flat_map_on_igris_vector", [] {
        return std::unique_ptr<mc::Model>(new c02::MapModel<Map, StdMapRef>("flat_map_on_igris_vector", mc::thorough() ? 3 : 2, 3, true));
    });
    mc::add_bfs("flat_set_on_igris_vector", [] {
        return std::unique_ptr<mc::Model>(new c02::SetModel<Set, StdSetRef, true>("flat_set_on_igris_vector", mc::thorough() ? 4 : 3));
    });
}
MC_MAIN
