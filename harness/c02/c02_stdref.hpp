// c02_stdref.hpp — the real std::map / std::set running next to the association-list reference
// (only for TUs that can include the host <map>/<set>, i.e. not the compat/std shim TU).
#pragma once
#include "c02_flat.hpp"
#include "c02_flat_large.hpp"
#include <map>
#include <set>

namespace c02
{
    template <class Cmp = std::less<int>> struct StdMapRefT
    {
        std::map<int, int, Cmp> m;
        void set(int k, int v) { m[k] = v; }
        void index(int k) { (void)m[k]; }
        void insert(int k, int v) { m.insert({k, v}); }
        void clear() { m.clear(); }
        template <class R> bool agrees(const R &r) const { return std::vector<std::pair<int, int>>(m.begin(), m.end()) == r.kv; }
    };
    template <class Cmp = std::less<int>> struct StdSetRefT
    {
        std::set<int, Cmp> s;
        void insert(int k) { s.insert(k); }
        void clear() { s.clear(); }
        bool agrees(const std::vector<int> &r) const { return std::vector<int>(s.begin(), s.end()) == r; }
    };
    struct StdRecRef
    {
        std::map<Rec, int> m;
        void insert(Rec k, int v) { m.insert({k, v}); }
        void set(Rec k, int v) { m[k] = v; }
        void index(Rec k) { (void)m[k]; }
        bool agrees(const std::vector<std::pair<Rec, int>> &r) const
        {
            if (m.size() != r.size())
                return false;
            for (auto &e : r)
            {
                auto it = m.find(e.first);
                if (it == m.end() || it->first != e.first || it->second != e.second)
                    return false;
            }
            return true;
        }
    };
}
