// long_history.hpp — ONE fixed deterministic history of many operations on the SAME objects of a BFS model,
// with the model's full oracle after every operation. Operations that destroy and re-create an object are
// left out (a hidden counter / offset / generation inside the object must survive the whole history); the
// alphabet is walked with a stride coprime to its size.
#pragma once
#include "mc.hpp"
#include <numeric>
#include <string>

namespace lh
{
    template <class M> void long_history(M &m, const std::string &sig, int steps, int stride_seed)
    {
        int n = m.nops(), stride = stride_seed;
        while (std::gcd(stride, n) != 1)
            stride++;
        long applied = 0;
        for (int i = 0, o = 0; i < steps; i++)
        {
            o = (int)(((long)o + stride + (i % 7 == 0 ? 1 : 0)) % n);
            if (m.recreates(o))
                continue;
            if (m.apply(o))
                applied++;
            if (mc::case_has_violation())
            {
                mc::violation(sig + ".long_history", "first failure after %d operations (%ld enabled) of one fixed history on the same objects", i + 1, applied);
                return;
            }
            if ((i & 4095) == 0)
                mc::tick();
        }
        if (applied < steps / 100)
            mc::harness_error("long_history %s: only %ld of %d operations were enabled", sig.c_str(), applied, steps);
        mc::more_cases(applied, applied);
        mc::outcome(m.key());
    }
}
