// c02_large.hpp — tree-shape sub-checks for LARGE vectors (the BFS box stops at length 4, so a size, index or
// capacity narrowed to 8 or 16 bits would be invisible there). One case = (target size S, growth method,
// operation family). The vector is grown one element at a time to S in {255,256,257,300,1000} (thorough, int
// only: 65536 and 70000) and compared with std::vector at every boundary size; every operation of the family
// is then run on a fresh copy at the positions / lengths around 255..257 (and 65535..65537), compared with the
// same operation on std::vector, and destroyed again. Oracles as in the BFS: contents through iteration,
// operator[], at(); capacity >= size inside one allocator block; for Tracked the lifetime registry (slots
// [0,size) alive, nothing alive beyond, nothing assigned/destroyed while not alive, nothing left at the end).
#pragma once
#include "c02_vector.hpp"

namespace c02
{
    template <class Tr, class T> struct LargeCase
    {
        using Vec = typename Tr::template vec<T>;
        using CI = typename Vec::const_iterator;
        static constexpr bool tracked = std::is_base_of<Tracked, T>::value; // Tracked and the element types derived from it
        string variant; // e.g. "vector_int"
        trk::Registry reg;
        uint64_t steps = 0;
        bool failed = false;

        static int val(size_t i) { return (int)((i * 7 + 3) % 1000); } // no period near 256
        void ctx(const string &op)
        {
            reg.begin_op(variant + ".large." + op);
            mc::crash_context("C02.%s.large.%s.crash", variant.c_str(), op.c_str());
        }
        bool bad(const string &op, const char *kind, const string &msg)
        {
            mc::violation(mc::fmt("C02.%s.large.%s.%s", variant.c_str(), op.c_str(), kind), "%s", msg.c_str());
            failed = true;
            return false;
        }
        static std::vector<size_t> boundaries(size_t S)
        {
            std::vector<size_t> b = {255, 256, 257};
            if (S > 65537)
                for (size_t x : {65535, 65536, 65537})
                    b.push_back(x);
            return b;
        }
        static std::vector<size_t> positions(size_t size, bool inclusive_end)
        {
            std::vector<size_t> p = {0, 1, 254};
            for (size_t x : boundaries(size))
                p.push_back(x);
            if (size)
                p.push_back(size - 1);
            p.push_back(size);
            std::vector<size_t> r;
            for (size_t x : p)
                if ((inclusive_end ? x <= size : x < size) && std::find(r.begin(), r.end(), x) == r.end())
                    r.push_back(x);
            return r;
        }
        static std::vector<size_t> lengths(size_t size)
        {
            std::vector<size_t> l = {1};
            for (size_t x : boundaries(size))
                l.push_back(x);
            return l;
        }

        // every oracle on one vector
        bool check(const string &op, Vec &v, const std::vector<int> &m)
        {
            const Vec &cv = v;
            if (v.size() != m.size())
                return bad(op, "size", mc::fmt("size()=%zu, std::vector has %zu", (size_t)v.size(), m.size()));
            if (v.capacity() < v.size())
                return bad(op, "capacity_below_size", mc::fmt("capacity()=%zu < size()=%zu", (size_t)v.capacity(), (size_t)v.size()));
            if (v.empty() != m.empty())
                return bad(op, "empty", mc::fmt("empty()=%d with %zu elements", (int)v.empty(), m.size()));
            if (v.data())
            {
                auto z = reg.zones.find((uintptr_t)v.data());
                if (z == reg.zones.end() || !z->second.alloc)
                    return bad(op, "buffer_not_from_allocator", "data() is not a block handed out by the allocator");
                if (z->second.n < v.capacity())
                    return bad(op, "capacity_exceeds_allocation", mc::fmt("capacity()=%zu, allocate(%zu)", (size_t)v.capacity(), z->second.n));
                for (size_t k = 0; tracked && k < z->second.n; k++)
                {
                    trk::St s = reg.state((const char *)v.data() + k * sizeof(T));
                    if (k < v.size() && s != trk::ALIVE)
                        return bad(op, "element_not_alive", mc::fmt("element %zu (size %zu) is %s", k, (size_t)v.size(), trk::stname(s)));
                    if (k >= v.size() && trk::Registry::live(s))
                        return bad(op, "live_object_beyond_size", mc::fmt("slot %zu (size %zu, capacity %zu) still holds an %s object", k, (size_t)v.size(), (size_t)v.capacity(), trk::stname(s)));
                }
            }
            else if (v.size() || v.capacity())
                return bad(op, "null_buffer", mc::fmt("data()==nullptr with size %zu", (size_t)v.size()));
            size_t k = 0;
            for (auto it = cv.begin(); it != cv.end(); ++it, ++k)
                if (k >= m.size() || value_of(*it) != m[k])
                    return bad(op, "contents", mc::fmt("element %zu is %d, std::vector has %d (size %zu)", k, value_of(*it), k < m.size() ? m[k] : -1, m.size()));
            if (k != m.size())
                return bad(op, "contents", mc::fmt("iteration yields %zu elements, std::vector has %zu", k, m.size()));
            for (size_t i : positions(m.size(), false))
            {
                bool ok = value_of(v[i]) == m[i] && value_of(cv[i]) == m[i] && value_of(v.data()[i]) == m[i];
                if constexpr (Tr::has_at)
                    ok = ok && value_of(v.at(i)) == m[i] && value_of(cv.at(i)) == m[i];
                if (!ok)
                    return bad(op, "indexing", mc::fmt("operator[]/at(%zu) disagree with std::vector (%d), size %zu", i, m[i], m.size()));
            }
            if (!m.empty() && (value_of(v.front()) != m.front() || value_of(v.back()) != m.back()))
                return bad(op, "indexing", mc::fmt("front()/back() disagree with std::vector, size %zu", m.size()));
            return true;
        }
        // after the temporaries of a scenario are gone
        bool balance(const string &op, long elements, long blocks)
        {
            if (tracked && reg.live_total() != elements)
                return bad(op, "live_object_count", mc::fmt("%ld element objects are alive, the live vectors hold %ld", reg.live_total(), elements));
            if (reg.alloc_zones() != blocks)
                return bad(op, "buffer_leak", mc::fmt("%ld allocator blocks outstanding, the live vectors own %ld", reg.alloc_zones(), blocks));
            return true;
        }

        void run(size_t S, int grow, int fam_lo, int fam_hi)
        {
            reg.prop = "C02";
            trk::Use u(reg);
            std::vector<int> ma;
            Vec *A = new Vec();
            string op = grow ? "emplace_back" : "push_back";
            ctx(op);
            std::vector<size_t> bnd = boundaries(S);
            for (size_t i = 0; i < S; i++)
            {
                if (grow)
                    A->emplace_back(val(i));
                else
                {
                    T t(val(i));
                    A->push_back(t);
                }
                ma.push_back(val(i));
                steps++;
                if ((i & 1023) == 0)
                    mc::tick(); // heartbeat: growing to 70000 one reallocation at a time takes seconds
                if (A->size() != ma.size() || A->capacity() < A->size())
                {
                    check(op, *A, ma);
                    return;
                }
                if (std::find(bnd.begin(), bnd.end(), ma.size()) != bnd.end() || ma.size() == 300)
                    if (!check(op, *A, ma))
                        return;
            }
            if (!check(op, *A, ma) || !balance(op, (long)S, 1))
                return;
            for (int fam = fam_lo; fam < fam_hi && !failed; fam++)
                family(fam, *A, ma);
            if (failed)
                return;
            ctx(op = "destructor");
            delete A;
            balance(op, 0, 0);
            reg.mute = true;
        }

        // run `f(W, mw)` on a fresh copy of A, compare, destroy the copy
        template <class F> bool on_copy(const string &op, Vec &A, const std::vector<int> &ma, F f)
        {
            ctx("copy_ctor");
            Vec *W = new Vec(A);
            std::vector<int> mw = ma;
            if (W->size() != ma.size())
            {
                check("copy_ctor", *W, mw);
                return false;
            }
            ctx(op);
            f(*W, mw);
            steps++;
            mc::tick();
            if (failed || !check(op, *W, mw))
                return false;
            ctx("destructor");
            delete W;
            return balance(op, (long)ma.size(), 1);
        }

        void family(int fam, Vec &A, const std::vector<int> &ma)
        {
            const size_t n = ma.size();
            switch (fam)
            {
            case 0: // insert(pos, value), lvalue and rvalue
                for (size_t pos : positions(n, true))
                {
                    if (!on_copy("insert", A, ma, [&](Vec &W, std::vector<int> &mw) {
                            T t(-5);
                            auto it = W.insert((CI)(W.data() + pos), t);
                            if (it != W.data() + pos)
                                bad("insert", "return_value", mc::fmt("insert(begin()+%zu, v) returned begin()+%ld", pos, (long)(it - W.data())));
                            mw.insert(mw.begin() + pos, -5);
                        }))
                        return;
                    if (!on_copy("insert_rvalue", A, ma, [&](Vec &W, std::vector<int> &mw) {
                            W.insert((CI)(W.data() + pos), T(-6));
                            mw.insert(mw.begin() + pos, -6);
                        }))
                        return;
                }
                break;
            case 1: // emplace(pos, args), also with an element of the vector itself
                for (size_t pos : positions(n, true))
                {
                    if (!on_copy("emplace", A, ma, [&](Vec &W, std::vector<int> &mw) {
                            W.emplace((CI)(W.data() + pos), -7);
                            mw.insert(mw.begin() + pos, -7);
                        }))
                        return;
                    if (!on_copy("insert_own_element", A, ma, [&](Vec &W, std::vector<int> &mw) {
                            size_t src = n - 1 - (pos < n ? pos : n - 1);
                            int v = mw[src];
                            W.insert((CI)(W.data() + pos), W[src]);
                            mw.insert(mw.begin() + pos, v);
                        }))
                        return;
                }
                break;
            case 2: // insert(pos, first, last) with a range of the same vector
            case 3: // ... with a range of another vector
                for (size_t len : lengths(n))
                {
                    if (len > n)
                        continue;
                    for (size_t pos : positions(n, true))
                    {
                        // three placements of the source range: at the front, at the back, around pos
                        std::vector<size_t> starts = {0, n - len};
                        if (fam == 3)
                            starts.resize(1);
                        for (size_t st : starts)
                            if (!on_copy(fam == 2 ? "insert_range_own" : "insert_range_other", A, ma, [&](Vec &W, std::vector<int> &mw) {
                                    std::vector<int> part(mw.begin() + st, mw.begin() + st + len);
                                    const T *f = (fam == 2 ? W.data() : A.data()) + st;
                                    auto it = W.insert(W.begin() + pos, (CI)f, (CI)(f + len));
                                    if (it != W.data() + pos)
                                        bad("insert_range", "return_value", mc::fmt("insert(begin()+%zu, range of %zu) returned begin()+%ld", pos, len, (long)(it - W.data())));
                                    mw.insert(mw.begin() + pos, part.begin(), part.end());
                                }))
                                return;
                    }
                }
                break;
            case 4: // erase(it)
                for (size_t pos : positions(n, false))
                    if (!on_copy("erase_one", A, ma, [&](Vec &W, std::vector<int> &mw) {
                            W.erase(W.begin() + pos);
                            mw.erase(mw.begin() + pos);
                        }))
                        return;
                break;
            case 5: // erase(first, last)
                if constexpr (Tr::has_erase_range)
                    for (size_t pos : positions(n, true))
                        for (size_t len : lengths(n))
                        {
                            size_t l = std::min(len, n - pos);
                            if (!on_copy("erase_range", A, ma, [&](Vec &W, std::vector<int> &mw) {
                                    W.erase(W.begin() + pos, W.begin() + pos + l);
                                    mw.erase(mw.begin() + pos, mw.begin() + pos + l);
                                }))
                                return;
                        }
                break;
            case 6: // reserve / resize / pop_back / clear
                for (size_t k : {(size_t)0, (size_t)255, (size_t)256, (size_t)257, (size_t)1000, n + 1, n + 256})
                {
                    if (!on_copy("reserve", A, ma, [&](Vec &W, std::vector<int> &) {
                            W.reserve(k);
                            if (W.capacity() < k)
                                bad("reserve", "capacity", mc::fmt("capacity()=%zu after reserve(%zu)", (size_t)W.capacity(), k));
                        }))
                        return;
                    if (!on_copy("resize", A, ma, [&](Vec &W, std::vector<int> &mw) {
                            W.resize(k);
                            mw.resize(k);
                        }))
                        return;
                }
                if (!on_copy("pop_back", A, ma, [&](Vec &W, std::vector<int> &mw) {
                        for (int i = 0; i < 3 && !mw.empty(); i++)
                        {
                            W.pop_back();
                            mw.pop_back();
                        }
                    }))
                    return;
                if (!on_copy("clear", A, ma, [&](Vec &W, std::vector<int> &mw) {
                        W.clear();
                        mw.clear();
                        W.push_back(T(1));
                        mw.push_back(1);
                    }))
                    return;
                break;
            case 7: // copy / move / assignment, comparison, at()
            {
                string op;
                ctx(op = "copy_assign");
                {
                    Vec E, F;
                    std::vector<int> mf;
                    for (size_t i = 0; i < 300; i++)
                    {
                        F.emplace_back((int)i);
                        mf.push_back((int)i);
                    }
                    E = A; // onto an empty vector
                    F = A; // onto a vector with 300 elements
                    if (!check(op, E, ma) || !check(op, F, ma))
                        return;
                    ctx(op = "self_assign");
                    Vec &alias = E;
                    E = alias;
                    if (!check(op, E, ma))
                        return;
                    ctx(op = "move_ctor");
                    Vec G(std::move(E));
                    if (!check(op, G, ma) || !check(op, E, {}))
                        return;
                    ctx(op = "move_assign");
                    E = std::move(G);
                    if (!check(op, E, ma) || !check(op, G, {}))
                        return;
                    ctx(op = "compare");
                    if (!(E == A) || (E != A) || !(A == F))
                        return (void)bad(op, "equality", mc::fmt("two equal vectors of %zu elements compare unequal", n));
                    if constexpr (Tr::has_less)
                        if ((E < A) || (A < E))
                            return (void)bad(op, "less", mc::fmt("two equal vectors of %zu elements compare less", n));
                    for (size_t idx : boundaries(n))
                    {
                        if (idx >= n)
                            continue;
                        for (int d : {-1, +1})
                        {
                            T old = E[idx];
                            E[idx] = T(ma[idx] + d);
                            std::vector<int> me = ma;
                            me[idx] += d;
                            steps++;
                            if ((E == A) != (me == ma) || (A == E) != (ma == me) || (E != A) != (me != ma))
                                return (void)bad(op, "equality", mc::fmt("vectors of %zu elements that differ only at index %zu: == gives %d", n, idx, (int)(E == A)));
                            if constexpr (Tr::has_less)
                                if ((E < A) != (me < ma) || (A < E) != (ma < me))
                                    return (void)bad(op, "less", mc::fmt("vectors of %zu elements that differ only at index %zu: E<A gives %d, std::vector %d", n, idx, (int)(E < A), (int)(me < ma)));
                            E[idx] = old;
                        }
                    }
                    if constexpr (Tr::has_at)
                    {
                        ctx(op = "at");
                        const Vec &CE = E;
                        for (int cst = 0; cst < 2; cst++)
                            for (size_t i : {n, n + 1, n + 256})
                            {
                                bool threw = false;
                                try
                                {
                                    if (cst)
                                        (void)CE.at(i);
                                    else
                                        (void)E.at(i);
                                }
                                catch (const std::out_of_range &)
                                {
                                    threw = true;
                                }
                                if (!threw)
                                    return (void)bad(cst ? "at_const" : "at", "no_throw", mc::fmt("at(%zu) with size %zu did not throw std::out_of_range", i, n));
                            }
                    }
                    // a range constructor and copy constructor of the whole thing
                    ctx(op = "ctor_range_pointer");
                    Vec H((const T *)A.data(), (const T *)A.data() + n);
                    if (!check(op, H, ma))
                        return;
                    ctx(op = "destructor");
                }
                balance("destructor", (long)n, 1);
                break;
            }
            }
        }
    };

    // sizes: quick {255,256,257,300,1000}; thorough adds 65536 and 70000 for int (one case per growth method
    // runs every family there: the growth itself is quadratic)
    template <class Tr, class T> void large_vector_body(const string &variant)
    {
        constexpr bool tracked = std::is_same<T, Tracked>::value;
        static const size_t small_sizes[] = {255, 256, 257, 300, 1000};
        static const size_t big_sizes[] = {65536, 70000};
        const int NF = 8, NSMALL = 5 * 2 * NF;
        const int NBIG = (!tracked && mc::thorough()) ? 2 * 2 : 0;
        int c = mc::choose(NSMALL + NBIG);
        LargeCase<Tr, T> lc;
        lc.variant = variant;
        if (c < NSMALL)
        {
            int fam = c % NF, grow = c / NF % 2;
            size_t S = small_sizes[c / NF / 2];
            static const char *fn[] = {"insert", "emplace", "insert range (own)", "insert range (other)", "erase(it)", "erase(first,last)", "reserve/resize/pop_back/clear",
                                       "copy/move/assign/compare/at"};
            mc::describe("%s: grow to %zu by %s, then %s around 255..257 and the ends", variant.c_str(), S, grow ? "emplace_back" : "push_back", fn[fam]);
            mc::nontrivial();
            lc.run(S, grow, fam, fam + 1);
            mc::outcome(mc::fmt("%zu/%d/%d", S, grow, fam));
        }
        else
        {
            c -= NSMALL;
            size_t S = big_sizes[c / 2];
            mc::describe("%s: grow to %zu by %s, then every operation family around 255..257, 65535..65537 and the ends", variant.c_str(), S, c % 2 ? "emplace_back" : "push_back");
            mc::nontrivial();
            lc.run(S, c % 2, 0, NF);
            mc::outcome(mc::fmt("%zu/%d/all", S, c % 2));
        }
        mc::more_cases(lc.steps, lc.steps);
    }
    template <class Tr> void register_large_vectors()
    {
        string n = Tr::name; // "vector" / "portable_vector"; the sub-check names avoid the substrings the BFS runs select
        string tag = n == "vector" ? "large_vec" : "large_portable_vec";
        mc::add_check(tag + "_int", [n] { large_vector_body<Tr, int>(n + "_int"); });
        mc::add_check(tag + "_tracked", [n] { large_vector_body<Tr, Tracked>(n + "_tracked"); });
    }
}
