#!/bin/bash
set -e
. $MC/par.sh
H=$VERIF/harness/c06
SAN="-fsanitize=address -fno-omit-frame-pointer"
DEF="-DPF_CAPN=262144" # the long sub-checks produce up to 140000 characters per call
# the engine itself, ASan-instrumented (print_i's 23-byte digit buffer is a stack object)
par clang -c -O1 -g $SAN -fno-finite-loops -I$REPO $REPO/igris/util/printf_impl.c -o $BUILD/printf_impl.o
# the libc entry points built on it: compiled against the host headers, public names renamed to igc_*
par clang -c -O1 -g $SAN -fno-builtin -Wno-implicit-function-declaration -I$REPO $REPO/compat/libc/stdio/sprintf.c -o $BUILD/sprintf.o
par clang -c -O1 -g $SAN -fno-builtin -Wno-implicit-function-declaration -I$REPO $REPO/compat/libc/stdio/fdprintf.c -o $BUILD/fdprintf.o
par clang -c -O1 -g $SAN -fno-builtin -Wno-implicit-function-declaration -I$REPO $REPO/compat/libc/stdio/fdputc.c -o $BUILD/fdputc.o
# harness: the oracle TU, and the typed-call thunks (about 3000 tiny instantiations: -O0, no instrumentation)
par clang++ -std=c++20 -c -O1 -g $DEF -I$REPO -I$MC -I$H $H/c06_printf.cpp -o $BUILD/h.o
par clang++ -std=c++20 -c -O0 $DEF -I$REPO -I$MC -I$H $H/c06_dispatch.cpp -o $BUILD/d.o
par clang++ -std=c++20 -O2 -c -I$MC $MC/mc.cpp -o $BUILD/mc.o
# re-entrancy run: the engine and its libc entry points under ThreadSanitizer, two threads on the controlled
# scheduler (sched.cpp and mc.cpp stay uninstrumented: TSan then sees only what the code under test does)
TF="-O1 -g -DNDEBUG -fsanitize=thread -fno-omit-frame-pointer -I$REPO -I$MC" # the TSan build is also the release (NDEBUG) build
par gcc -c $TF $REPO/igris/util/printf_impl.c -o $BUILD/printf_impl_tsan.o
par gcc -c $TF -fno-builtin -Wno-implicit-function-declaration $REPO/compat/libc/stdio/sprintf.c -o $BUILD/sprintf_tsan.o
par gcc -c $TF -fno-builtin -Wno-implicit-function-declaration $REPO/compat/libc/stdio/fdprintf.c -o $BUILD/fdprintf_tsan.o
par gcc -c $TF -fno-builtin -Wno-implicit-function-declaration $REPO/compat/libc/stdio/fdputc.c -o $BUILD/fdputc_tsan.o
par g++ -std=c++20 -c $TF -DREENT_ID='"C06"' $H/c06_reentrancy.cpp -o $BUILD/h_tsan.o
par g++ -std=c++20 -O2 -g -I$MC -c $MC/sched/sched.cpp -o $BUILD/sched.o
par g++ -std=c++20 -O2 -c -I$MC $MC/mc.cpp -o $BUILD/mc_gcc.o
# build-mode variant of the repository sources: the other compiler at -O2, release mode (-DNDEBUG: an assert that carries
# a side effect vanishes) and plain char unsigned (-funsigned-char: ARM / PowerPC / RISC-V). No sanitizer; the harness
# objects are shared with the main build (they include only printf_impl.h, which has no char-dependent declaration).
VF="-O2 -g -DNDEBUG -funsigned-char -I$REPO"
par gcc -c $VF $REPO/igris/util/printf_impl.c -o $BUILD/printf_impl_var.o
par gcc -c $VF -fno-builtin -Wno-implicit-function-declaration $REPO/compat/libc/stdio/sprintf.c -o $BUILD/sprintf_var.o
par gcc -c $VF -fno-builtin -Wno-implicit-function-declaration $REPO/compat/libc/stdio/fdprintf.c -o $BUILD/fdprintf_var.o
par gcc -c $VF -fno-builtin -Wno-implicit-function-declaration $REPO/compat/libc/stdio/fdputc.c -o $BUILD/fdputc_var.o
parwait
objcopy --redefine-sym sprintf=igc_sprintf --redefine-sym vsprintf=igc_vsprintf --redefine-sym snprintf=igc_snprintf $BUILD/sprintf_var.o
objcopy --redefine-sym fdprintf=igc_fdprintf --redefine-sym vfdprintf=igc_vfdprintf --redefine-sym fdputc=igc_fdputc --redefine-sym write=igc_write $BUILD/fdprintf_var.o
objcopy --redefine-sym fdputc=igc_fdputc --redefine-sym write=igc_write $BUILD/fdputc_var.o
clang++ $BUILD/h.o $BUILD/d.o $BUILD/printf_impl_var.o $BUILD/sprintf_var.o $BUILD/fdprintf_var.o $BUILD/fdputc_var.o $BUILD/mc.o -ldl -o $BUILD/c06_variant
objcopy --redefine-sym sprintf=igc_sprintf --redefine-sym vsprintf=igc_vsprintf --redefine-sym snprintf=igc_snprintf $BUILD/sprintf_tsan.o
objcopy --redefine-sym fdprintf=igc_fdprintf --redefine-sym vfdprintf=igc_vfdprintf --redefine-sym fdputc=igc_fdputc --redefine-sym write=igc_write $BUILD/fdprintf_tsan.o
objcopy --redefine-sym fdputc=igc_fdputc --redefine-sym write=igc_write $BUILD/fdputc_tsan.o
g++ -fsanitize=thread $BUILD/h_tsan.o $BUILD/printf_impl_tsan.o $BUILD/sprintf_tsan.o $BUILD/fdprintf_tsan.o $BUILD/fdputc_tsan.o $BUILD/sched.o $BUILD/mc_gcc.o -lm -ldl -lpthread -o $BUILD/c06_tsan
objcopy --redefine-sym sprintf=igc_sprintf --redefine-sym vsprintf=igc_vsprintf --redefine-sym snprintf=igc_snprintf $BUILD/sprintf.o
objcopy --redefine-sym fdprintf=igc_fdprintf --redefine-sym vfdprintf=igc_vfdprintf --redefine-sym fdputc=igc_fdputc --redefine-sym write=igc_write $BUILD/fdprintf.o
objcopy --redefine-sym fdputc=igc_fdputc --redefine-sym write=igc_write $BUILD/fdputc.o
clang++ $SAN $BUILD/h.o $BUILD/d.o $BUILD/printf_impl.o $BUILD/sprintf.o $BUILD/fdprintf.o $BUILD/fdputc.o $BUILD/mc.o -o $BUILD/c06
echo "printf $BUILD/c06" > $BUILD/runs.txt
echo "reentrancy $BUILD/c06_tsan" >> $BUILD/runs.txt
echo "ndebug_unsigned_char_gcc_O2 $BUILD/c06_variant --only integers,flag_sequences,chars,strings_guard_page,pointers,mixed_formats,libc_entries" >> $BUILD/runs.txt
