#!/bin/bash
set -e
. $MC/par.sh
H=$VERIF/harness/c06
SAN="-fsanitize=address -fno-omit-frame-pointer"
DEF="-DPF_CAPN=262144" # the long sub-checks produce up to 140000 characters per call
# the engine itself, ASan-instrumented (print_i's 23-byte digit buffer is a stack object)
par clang -c -O1 -g $SAN -fno-finite-loops -I$REPO $REPO/igris/util/printf_impl.c -o $BUILD/printf_impl.o
# the libc entry points built on it: compiled against the host headers, public names renamed to igc_*
par clang -c -O1 -g $SAN -fno-builtin -Wno-implicit-function-declaration -I$REPO $REPO/compat/libc/stdio/sprintf.c -o $BUILD/sprintf.o
par clang -c -O1 -g $SAN -fno-builtin -Wno-implicit-function-declaration -I$REPO $REPO/compat/libc/stdio/fdprintf.c -o $BUILD/fdprintf.o
# harness: the oracle TU, and the typed-call thunks (about 3000 tiny instantiations: -O0, no instrumentation)
par clang++ -std=c++17 -c -O1 -g $DEF -I$REPO -I$MC -I$H $H/c06_printf.cpp -o $BUILD/h.o
par clang++ -std=c++17 -c -O0 $DEF -I$REPO -I$MC -I$H $H/c06_dispatch.cpp -o $BUILD/d.o
par clang++ -std=c++17 -O2 -c -I$MC $MC/mc.cpp -o $BUILD/mc.o
parwait
objcopy --redefine-sym sprintf=igc_sprintf --redefine-sym vsprintf=igc_vsprintf --redefine-sym snprintf=igc_snprintf $BUILD/sprintf.o
objcopy --redefine-sym fdprintf=igc_fdprintf --redefine-sym vfdprintf=igc_vfdprintf --redefine-sym fdputc=igc_fdputc $BUILD/fdprintf.o
clang++ $SAN $BUILD/h.o $BUILD/d.o $BUILD/printf_impl.o $BUILD/sprintf.o $BUILD/fdprintf.o $BUILD/mc.o -o $BUILD/c06
echo "printf $BUILD/c06" > $BUILD/runs.txt
