// pfdispatch.hpp — run-time argument list -> typed C variadic call.  Include in exactly one
// translation unit per harness (it defines pf::run_impl / pf::run_ref).
#pragma once
#include "pfcall.hpp"
#include <dlfcn.h>

namespace pf
{
    // ---- the variadic entries
    inline int call_printf(Cap *cap, const char *fmt, ...)
    {
        va_list ap;
        va_start(ap, fmt);
        int r = __printf(cap_cb, cap, fmt, ap);
        va_end(ap);
        return r;
    }
    // The reference is glibc's vsnprintf itself, not the sanitizer's interceptor in front of
    // it: the interceptor runs strlen() over every %s argument (precision or not) and would
    // fault on the unterminated strings that sit against a guard page.
    typedef int (*vsnprintf_fn)(char *, size_t, const char *, va_list);
    inline vsnprintf_fn libc_vsnprintf()
    {
        static vsnprintf_fn f = (vsnprintf_fn)dlsym(RTLD_NEXT, "vsnprintf");
        if (!f)
            mc::harness_error("pfcall: libc vsnprintf not found");
        return f;
    }
    inline int call_ref(char *buf, size_t n, const char *fmt, ...)
    {
        va_list ap;
        va_start(ap, fmt);
        int r = libc_vsnprintf()(buf, n, fmt, ap);
        va_end(ap);
        return r;
    }

    // ---- run-time argument list -> typed variadic call
    // F must provide  template<class... A> int operator()(A... a)
    template <int N> struct Disp
    {
        template <class F, class... A> static int go(F &f, const Arg *a, int n, A... acc)
        {
            if (n == 0)
                return f(acc...);
            if constexpr (N == 0)
            {
                mc::harness_error("pfcall: more arguments than the dispatcher depth");
            }
            else
            {
                switch (a->k)
                {
                case Arg::I:
                    return Disp<N - 1>::go(f, a + 1, n - 1, acc..., a->i);
                case Arg::L:
                    return Disp<N - 1>::go(f, a + 1, n - 1, acc..., a->l);
                case Arg::P:
                    return Disp<N - 1>::go(f, a + 1, n - 1, acc..., a->p);
#ifdef PF_WITH_DOUBLE
                case Arg::D:
                    return Disp<N - 1>::go(f, a + 1, n - 1, acc..., a->d);
#endif
                default:
                    break;
                }
                mc::harness_error("pfcall: argument kind not compiled in");
            }
        }
    };
    template <class F> int dispatch(F &f, const Args &a)
    {
        if ((int)a.size() > PF_MAXARGS)
            mc::harness_error("pfcall: %zu arguments > PF_MAXARGS", a.size());
        return Disp<PF_MAXARGS>::go(f, a.data(), (int)a.size());
    }

    struct ImplCall
    {
        Cap *cap;
        const char *fmt;
        template <class... A> int operator()(A... a) { return call_printf(cap, fmt, a...); }
    };
    struct RefCall
    {
        char *buf;
        size_t n;
        const char *fmt;
        template <class... A> int operator()(A... a) { return call_ref(buf, n, fmt, a...); }
    };

    Out run_impl(const std::string &fmt, const Args &a)
    {
        static Cap cap;
        cap.n = 0;
        ImplCall c{&cap, fmt.c_str()};
        Out o;
        o.ret = dispatch(c, a);
        o.emitted = cap.n;
        o.text.assign((const char *)cap.buf, cap.n < CAPN ? cap.n : CAPN);
        return o;
    }
    // ---- re-entrant callback
    inline int call_printf_cb(void (*cb)(void *, int), void *data, const char *fmt, ...)
    {
        va_list ap;
        va_start(ap, fmt);
        int r = __printf(cb, data, fmt, ap);
        va_end(ap);
        return r;
    }
    struct SmallCap
    {
        char b[256];
        size_t n;
    };
    inline void small_cb(void *d, int c)
    {
        SmallCap *k = (SmallCap *)d;
        if (k->n < sizeof k->b)
            k->b[k->n] = (char)c;
        k->n++;
    }
    // the nested formats: integers in every base with flags, strings/chars/pointer-free text, floats
    template <class F> inline int nested_format(int kind, F &&call)
    {
        switch (kind)
        {
        case 0:
            return call("%d", 98760);
        case 1:
            return call("%llx|%s|%-6o|%c|%+.7ld", 0xfedcba9876543210ull, "nested", 0777u, 'n', -4242424242L);
        case 2:
            return call("%.3f|%e|%g|%G", 2718.281828, -6.02214076e23, 0.000123456, 1e-10);
        default:
            return call("%#x %020.12f %u", 0xabcdefu, -1234567.890123, 4000000000u);
        }
    }
    struct NestState
    {
        Cap *cap;
        int period, kind, depth;
        size_t nested_calls;
        std::string bad;
    };
    inline void nest_cb(void *d, int c)
    {
        NestState *st = (NestState *)d;
        cap_cb(st->cap, c);
        if (st->depth || st->cap->n % (size_t)st->period)
            return;
        st->depth = 1;
        SmallCap in;
        in.n = 0;
        int r = nested_format(st->kind, [&](const char *f, auto... a) { return call_printf_cb(small_cb, &in, f, a...); });
        st->nested_calls++;
        static std::string want[NEST_KINDS];
        if (want[st->kind].empty())
        {
            char b[256];
            int n = nested_format(st->kind, [&](const char *f, auto... a) { return call_ref(b, sizeof b, f, a...); });
            want[st->kind].assign(b, n < 0 ? 0 : (size_t)n);
        }
        if (st->bad.empty() && (r < 0 || (size_t)r != in.n || in.n > sizeof in.b || std::string(in.b, in.n) != want[st->kind]))
            st->bad = mc::fmt("nested call #%zu (after outer character %zu) returned %d and emitted %s, expected %s", st->nested_calls,
                              st->cap->n, r, vis(std::string(in.b, in.n < sizeof in.b ? in.n : sizeof in.b)).c_str(), vis(want[st->kind]).c_str());
        st->depth = 0;
    }
    struct NestCall
    {
        NestState *st;
        const char *fmt;
        template <class... A> int operator()(A... a) { return call_printf_cb(nest_cb, st, fmt, a...); }
    };
    Out run_impl_nested(const std::string &fmt, const Args &a, int period, int kind, size_t *nested_calls, std::string *nested_bad)
    {
        static Cap cap;
        cap.n = 0;
        NestState st{&cap, period < 1 ? 1 : period, kind, 0, 0, ""};
        NestCall c{&st, fmt.c_str()};
        Out o;
        o.ret = dispatch(c, a);
        o.emitted = cap.n;
        o.text.assign((const char *)cap.buf, cap.n < CAPN ? cap.n : CAPN);
        if (nested_calls)
            *nested_calls = st.nested_calls;
        if (nested_bad)
            *nested_bad = st.bad;
        return o;
    }
    Out run_ref(const std::string &fmt, const Args &a)
    {
        static char buf[CAPN + 1];
        RefCall c{buf, sizeof buf, fmt.c_str()};
        Out o;
        o.ret = dispatch(c, a);
        size_t n = o.ret < 0 ? 0 : (size_t)o.ret;
        o.emitted = n;
        o.text.assign(buf, n < CAPN ? n : CAPN);
        return o;
    }

}
