// c06_dispatch.cpp — the only TU of the C06 harness that instantiates the typed-call thunks.
#include "pfdispatch.hpp"

using namespace pf;

extern "C"
{
    int igc_sprintf(char *buf, const char *format, ...);
    int igc_vsprintf(char *s, const char *format, va_list ap);
    int igc_fdprintf(int fd, const char *format, ...);
    int igc_vfdprintf(int fd, const char *format, va_list args);
    int igc_snprintf(char *buf, size_t maxlen, const char *format, ...);
}
static int call_vsprintf(char *buf, const char *fmt, ...)
{
    va_list ap;
    va_start(ap, fmt);
    int r = igc_vsprintf(buf, fmt, ap);
    va_end(ap);
    return r;
}
static int call_vfdprintf(int fd, const char *fmt, ...)
{
    va_list ap;
    va_start(ap, fmt);
    int r = igc_vfdprintf(fd, fmt, ap);
    va_end(ap);
    return r;
}
struct EntryCall
{
    int which;
    char *buf;
    size_t size; // snprintf only
    int fd;      // fdprintf / vfdprintf only
    const char *fmt;
    template <class... A> int operator()(A... a)
    {
        switch (which)
        {
        case 0:
            return igc_sprintf(buf, fmt, a...);
        case 1:
            return call_vsprintf(buf, fmt, a...);
        case 2:
            return igc_fdprintf(fd, fmt, a...);
        case 4:
            return igc_snprintf(buf, size, fmt, a...);
        default:
            return call_vfdprintf(fd, fmt, a...);
        }
    }
};
int run_entry(int which, char *buf, size_t size, int fd, const char *fmt, const Args &a)
{
    EntryCall c{which, buf, size, fd, fmt};
    return dispatch(c, a);
}

// ---- formats with up to 300 directives: a fixed argument pattern int, long long, char*, int (%c)
// repeated 75 times, expanded at compile time into one ordinary variadic call.
#include <utility>
static const char *const S300[5] = {"", "x", "str", "hello world", "%d"};
template <size_t I> static auto pick300()
{
    if constexpr (I % 4 == 0)
        return (int)((unsigned)I * 2654435761u); // both signs occur
    else if constexpr (I % 4 == 1)
        return (long long)I * 0x0123456789ABLL - ((I & 4) ? 0x7fffffffffffLL : 0);
    else if constexpr (I % 4 == 2)
        return S300[(I / 4) % 5];
    else
        return (int)('a' + (I / 4) % 26);
}
template <size_t... I> static int impl300(Cap *cap, const char *fmt, std::index_sequence<I...>)
{
    return call_printf(cap, fmt, pick300<I>()...);
}
template <size_t... I> static int ref300(char *buf, size_t n, const char *fmt, std::index_sequence<I...>)
{
    return call_ref(buf, n, fmt, pick300<I>()...);
}
Out run_impl300(const std::string &fmt)
{
    static Cap cap;
    cap.n = 0;
    Out o;
    o.ret = impl300(&cap, fmt.c_str(), std::make_index_sequence<300>());
    o.emitted = cap.n;
    o.text.assign((const char *)cap.buf, cap.n < CAPN ? cap.n : CAPN);
    return o;
}
Out run_ref300(const std::string &fmt)
{
    static char buf[CAPN + 1];
    Out o;
    o.ret = ref300(buf, sizeof buf, fmt.c_str(), std::make_index_sequence<300>());
    size_t n = o.ret < 0 ? 0 : (size_t)o.ret;
    o.emitted = n;
    o.text.assign(buf, n < CAPN ? n : CAPN);
    return o;
}
