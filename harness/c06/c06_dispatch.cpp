// c06_dispatch.cpp — the only TU of the C06 harness that instantiates the typed-call thunks.
#include "pfdispatch.hpp"

using namespace pf;

extern "C"
{
    int igc_sprintf(char *buf, const char *format, ...);
    int igc_vsprintf(char *s, const char *format, va_list ap);
    int igc_fdprintf(int fd, const char *format, ...);
    int igc_vfdprintf(int fd, const char *format, va_list args);
    int igc_snprintf(char *buf, size_t maxlen, const char *format, ...);
}
static int call_vsprintf(char *buf, const char *fmt, ...)
{
    va_list ap;
    va_start(ap, fmt);
    int r = igc_vsprintf(buf, fmt, ap);
    va_end(ap);
    return r;
}
static int call_vfdprintf(int fd, const char *fmt, ...)
{
    va_list ap;
    va_start(ap, fmt);
    int r = igc_vfdprintf(fd, fmt, ap);
    va_end(ap);
    return r;
}
struct EntryCall
{
    int which;
    char *buf;
    size_t size; // snprintf only
    const char *fmt;
    template <class... A> int operator()(A... a)
    {
        switch (which)
        {
        case 0:
            return igc_sprintf(buf, fmt, a...);
        case 1:
            return call_vsprintf(buf, fmt, a...);
        case 2:
            return igc_fdprintf(7, fmt, a...);
        case 4:
            return igc_snprintf(buf, size, fmt, a...);
        default:
            return call_vfdprintf(7, fmt, a...);
        }
    }
};
int run_entry(int which, char *buf, size_t size, const char *fmt, const Args &a)
{
    EntryCall c{which, buf, size, fmt};
    return dispatch(c, a);
}
