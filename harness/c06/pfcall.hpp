// pfcall.hpp — calling the real printf engine (and the glibc reference) with an
// argument list that is built at run time.
//
// A case is (format string, vector<Arg>).  The arguments are handed to the
// variadic entry points through a recursive template that turns the run-time
// kind of each argument into a compile-time type (int / long long / pointer /
// double), so every call is an ordinary, ABI-correct C variadic call — no
// hand-made va_list.  64-bit integer types (long, long long, intmax_t, size_t,
// ssize_t, ptrdiff_t) share one class; the static_asserts below pin that.
#pragma once
#include "mc.hpp"
#include <cstdarg>
#include <cstddef>
#include <cstdint>
#include <cstdio>
#include <cstring>
#include <string>
#include <sys/types.h>
#include <vector>

#include <igris/util/printf_impl.h>

static_assert(sizeof(long) == 8 && sizeof(long long) == 8 && sizeof(intmax_t) == 8 && sizeof(size_t) == 8 &&
                  sizeof(ssize_t) == 8 && sizeof(ptrdiff_t) == 8 && sizeof(void *) == 8 && sizeof(int) == 4,
              "LP64 host assumed: one 64-bit integer argument class");

namespace pf
{
    struct Arg
    {
        enum K
        {
            I, // int / unsigned int (also what char and short promote to)
            L, // any 64-bit integer type
            P, // pointer
            D  // double
        } k;
        int i;
        long long l;
        const void *p;
        double d;
        static Arg mkI(int v) { return Arg{I, v, 0, nullptr, 0}; }
        static Arg mkL(long long v) { return Arg{L, 0, v, nullptr, 0}; }
        static Arg mkP(const void *v) { return Arg{P, 0, 0, v, 0}; }
        static Arg mkD(double v) { return Arg{D, 0, 0, nullptr, v}; }
    };
    typedef std::vector<Arg> Args;
#ifndef PF_MAXARGS
#define PF_MAXARGS 6 // depth of the typed-call dispatcher
#endif

    // ---- capture of the characters handed to the output callback
#ifndef PF_CAPN
#define PF_CAPN 8192 // stored characters per call (more are counted, not stored)
#endif
    enum
    {
        CAPN = PF_CAPN
    };
    struct Cap
    {
        unsigned char buf[CAPN];
        size_t n; // characters handed over (may exceed CAPN; the excess is counted, not stored)
    };
    inline void cap_cb(void *d, int c)
    {
        Cap *k = (Cap *)d;
        if (k->n < CAPN)
            k->buf[k->n] = (unsigned char)c;
        k->n++;
    }

    // result of one engine call
    struct Out
    {
        int ret;
        std::string text; // the first min(n, CAPN) characters
        size_t emitted;
    };
    // defined in the dispatch translation unit (pfdispatch.hpp), which is compiled separately
    // and without optimisation because it instantiates ~1000 small call thunks
    Out run_impl(const std::string &fmt, const Args &a);
    Out run_ref(const std::string &fmt, const Args &a);

    // Re-entrant output callback: the engine is run with a callback that, after every `period`-th
    // character it receives, runs a NESTED __printf (nested format number `kind`, see pfdispatch.hpp)
    // into a sink of its own before it returns.  The result is the OUTER call's text and count;
    // *nested_calls / *nested_bad report how many nested calls ran and the first nested call whose
    // own text or count was wrong (empty = all right).
    enum
    {
        NEST_KINDS = 4
    };
    Out run_impl_nested(const std::string &fmt, const Args &a, int period, int kind, size_t *nested_calls, std::string *nested_bad);

    inline std::string vis(const std::string &s)
    { // printable rendering for messages
        std::string r = "\"";
        for (unsigned char c : s)
        {
            if (c == '"' || c == '\\')
            {
                r += '\\';
                r += (char)c;
            }
            else if (c >= 0x20 && c < 0x7f)
                r += (char)c;
            else
                r += mc::fmt("\\x%02x", c);
        }
        return r + "\"";
    }
    inline std::string show_args(const Args &a)
    {
        std::string s;
        for (size_t i = 0; i < a.size(); i++)
        {
            if (i)
                s += ", ";
            switch (a[i].k)
            {
            case Arg::I:
                s += mc::fmt("(int)%d", a[i].i);
                break;
            case Arg::L:
                s += mc::fmt("(i64)%lld", a[i].l);
                break;
            case Arg::P:
                s += "(ptr)";
                break;
            case Arg::D:
                s += mc::fmt("(double)%a", a[i].d);
                break;
            }
        }
        return s;
    }
}
