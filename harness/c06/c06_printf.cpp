// C06 — printf engine: integer, char, string and pointer conversions match ISO C.
// Shape I: the directive grammar  %[flags][width][.prec][length]conv  x boundary
// argument values is enumerated exhaustively within the stated bounds; every
// case calls the real __printf (igris/util/printf_impl.c, ASan build) through
// an ordinary variadic call and compares the characters handed to the output
// callback and the return value with glibc's vsnprintf on the same format and
// arguments (the ISO C reference).  %p has its own oracle (0x + hex digits that
// parse back, padded like a string); %s arguments live flush against a
// PROT_NONE page so one byte of over-read faults.
#include "pfcall.hpp"
#include "guard.hpp"
#include <climits>
#include <cstdlib>
#include <cwchar>
#include <map>
#include <memory>

using namespace pf;
using std::string;
using std::vector;

// ------------------------------------------------------------------ grammar
enum
{
    F_LEFT = 1,
    F_PLUS = 2,
    F_SPACE = 4,
    F_ALT = 8,
    F_ZERO = 16
};
static const char FLAGCH[5] = {'-', '+', ' ', '#', '0'};

struct Dir
{
    unsigned flags = 0;
    int wkind = 0, w = 0; // 0 none, 1 literal, 2 '*'
    int pkind = 0, p = 0; // 0 none, 1 "." alone, 2 literal, 3 ".*"
    const char *len = "";
    char conv = 'd';
};
static string render(const Dir &d, Args &a)
{
    string s = "%";
    for (int i = 0; i < 5; i++)
        if (d.flags & (1u << i))
            s += FLAGCH[i];
    if (d.wkind == 1)
        s += std::to_string(d.w);
    else if (d.wkind == 2)
    {
        s += '*';
        a.push_back(Arg::mkI(d.w));
    }
    if (d.pkind == 1)
        s += '.';
    else if (d.pkind == 2)
        s += "." + std::to_string(d.p);
    else if (d.pkind == 3)
    {
        s += ".*";
        a.push_back(Arg::mkI(d.p));
    }
    s += d.len;
    s += d.conv;
    return s;
}
static string flagstr(unsigned f)
{
    string s;
    for (int i = 0; i < 5; i++)
        if (f & (1u << i))
            s += FLAGCH[i];
    return s;
}

struct Opt
{
    int kind, v;
};
static vector<Opt> width_opts()
{
    vector<Opt> o;
    o.push_back({0, 0});
    if (!mc::thorough())
    {
        for (int v : {1, 5, 10, 12, 30})
            o.push_back({1, v});
        for (int v : {0, 1, 5, -5, 12, -12})
            o.push_back({2, v});
    }
    else
    {
        for (int v = 1; v <= 24; v++)
            o.push_back({1, v});
        o.push_back({1, 30});
        o.push_back({1, 40});
        o.push_back({1, 100});
        for (int v = -24; v <= 24; v++)
            o.push_back({2, v});
    }
    return o;
}
static vector<Opt> prec_opts()
{
    vector<Opt> o;
    o.push_back({0, 0});
    o.push_back({1, 0});
    if (!mc::thorough())
    {
        for (int v : {0, 1, 5, 10})
            o.push_back({2, v});
        for (int v : {0, 3, -1})
            o.push_back({3, v});
    }
    else
    {
        for (int v = 0; v <= 22; v++)
            o.push_back({2, v});
        o.push_back({2, 30});
        o.push_back({2, 100});
        for (int v = -2; v <= 22; v++)
            o.push_back({3, v});
    }
    return o;
}

// boundary values of the promoted argument types (64-bit patterns; the int class takes the low 32 bits)
static const long long VALS64[] = {0,
                                   1,
                                   -1,
                                   2,
                                   7,
                                   8,
                                   9,
                                   10,
                                   15,
                                   16,
                                   63,
                                   64,
                                   99,
                                   100,
                                   127,
                                   128,
                                   -128,
                                   -129,
                                   255,
                                   256,
                                   32767,
                                   32768,
                                   -32768,
                                   -32769,
                                   65535,
                                   65536,
                                   INT_MAX,
                                   INT_MIN,
                                   (long long)INT_MAX - 1,
                                   (long long)INT_MIN + 1,
                                   (long long)INT_MAX + 1,
                                   (long long)INT_MIN - 1,
                                   (long long)UINT_MAX,
                                   4294967296LL,
                                   -5000000000LL,
                                   1000000000000000000LL,
                                   1234567890123456789LL,
                                   LLONG_MAX,
                                   LLONG_MIN,
                                   LLONG_MAX - 1,
                                   LLONG_MIN + 1};
static vector<long long> values_for(bool wide)
{
    vector<long long> v;
    for (long long x : VALS64)
    {
        long long y = wide ? x : (long long)(int)x;
        bool dup = false;
        for (long long z : v)
            dup |= z == y;
        if (!dup)
            v.push_back(y);
    }
    return v;
}

static const char *LENS[8] = {"", "hh", "h", "l", "ll", "j", "z", "t"};
static bool len_is_wide(int li) { return li >= 3; }
static const char ICONV[6] = {'d', 'i', 'u', 'o', 'x', 'X'};

// Which flag subsets does ISO C define for a conversion?  '#' is undefined for d i u c s p,
// '0' is undefined for c s p.  '+' and ' ' are described for signed conversions only and
// therefore have no effect elsewhere (defined, and included).  A precision is undefined for c p.
static bool flags_defined(unsigned f, char conv)
{
    switch (conv)
    {
    case 'd':
    case 'i':
    case 'u':
        return !(f & F_ALT);
    case 'o':
    case 'x':
    case 'X':
        return true;
    default: // c s p
        return !(f & (F_ALT | F_ZERO));
    }
}

// ------------------------------------------------------------------ oracle helpers
// Outcome classes for the vacuity guard: the text with every run of one character class
// collapsed ("  -00042" -> "_-09", "0x00ff  " -> "0x0a_"): which of padding / sign / prefix /
// zero fill / digits occurred, in which order.
static string shape_of(const string &t)
{
    string r;
    for (unsigned char c : t)
    {
        char k = c == ' ' ? '_' : c == '0' ? '0' : (c >= '1' && c <= '9') ? '9' : (c >= 'a' && c <= 'f') ? 'a' : (c >= 'A' && c <= 'F') ? 'A' : (char)c;
        if (r.empty() || r.back() != k)
            r += k;
    }
    return r;
}
static bool is_signed_conv(char c) { return c == 'd' || c == 'i'; }

// value as the conversion will see it after the length modifier has been applied
static long long effective_value(const Dir &d, long long v, bool *fits_int)
{
    string l = d.len;
    bool sg = is_signed_conv(d.conv);
    long long e;
    if (l == "hh")
        e = sg ? (long long)(signed char)v : (long long)(unsigned char)v;
    else if (l == "h")
        e = sg ? (long long)(short)v : (long long)(unsigned short)v;
    else if (l == "")
        e = sg ? (long long)(int)v : (long long)(unsigned)v;
    else
        e = v;
    if (fits_int)
        *fits_int = sg ? (e >= INT_MIN && e <= INT_MAX) : ((unsigned long long)e <= UINT_MAX);
    return e;
}

// finding signature: routine + failure kind + input class
static string int_sig(const char *kind, const Dir &d, long long v)
{
    bool fits;
    long long e = effective_value(d, v, &fits);
    char cg = d.conv == 'i' ? 'd' : d.conv == 'X' ? 'x' : d.conv;
    string s = string("C06.print_i.") + kind + "." + cg;
    s += (is_signed_conv(d.conv) && e < 0) ? ".neg" : e == 0 ? ".zero" : ".pos";
    bool prec = d.pkind == 1 || d.pkind == 2 || (d.pkind == 3 && d.p >= 0);
    if (prec)
        s += ".prec";
    if (d.flags & F_ALT)
        s += ".alt";
    if (d.flags & F_ZERO)
        s += ".zeroflag";
    if (d.wkind == 2 && d.w < 0)
        s += ".negstar";
    if (!fits)
        s += ".wide";
    return s;
}

static void compare(const string &sigbase_text, const string &sig_count, const string &fmt, const Args &a,
                    const Out &got, const Out &want)
{
    if ((size_t)got.ret != got.emitted || got.ret < 0)
        mc::violation(sig_count, "format %s args [%s]: returned %d but handed %zu characters to the callback", vis(fmt).c_str(),
                      show_args(a).c_str(), got.ret, got.emitted);
    if (got.text != want.text || got.emitted != want.emitted)
        mc::violation(sigbase_text, "format %s args [%s]: emitted %s, ISO C (glibc) gives %s", vis(fmt).c_str(),
                      show_args(a).c_str(), vis(got.text).c_str(), vis(want.text).c_str());
}

// ------------------------------------------------------------------ (1) integer directives
struct FC
{
    unsigned flags;
    int conv;
};
static vector<FC> g_fc; // the (flags, conversion) pairs ISO defines
static long g_fc_excluded = 0;

static void integers_body()
{
    static vector<Opt> W = width_opts(), P = prec_opts();
    static vector<long long> VI = values_for(false), VW = values_for(true);
    int unit = mc::choose((int)g_fc.size() * 8);
    FC fc = g_fc[unit / 8];
    int li = unit % 8;
    int wi = mc::choose((int)W.size());
    int pi = mc::choose((int)P.size());
    Dir d;
    d.flags = fc.flags;
    d.conv = ICONV[fc.conv];
    d.len = LENS[li];
    d.wkind = W[wi].kind;
    d.w = W[wi].v;
    d.pkind = P[pi].kind;
    d.p = P[pi].v;
    const vector<long long> &V = len_is_wide(li) ? VW : VI;
    {
        Args tmp;
        string f = render(d, tmp);
        mc::describe("format %s (width arg %d, precision arg %d) x %zu boundary values of the %s argument class", vis(f).c_str(), d.w,
                     d.p, V.size(), len_is_wide(li) ? "64-bit" : "int");
    }
    if (unit == 0 && wi == 0 && pi == 0)
        mc::count("excluded_undefined_by_iso", g_fc_excluded * 8 * (long)W.size() * (long)P.size() * (long)VW.size());

    // bare renderings "%<len><conv>" of each value: a case is non-trivial when flags/width/precision changed the text
    static std::map<string, vector<string>> bare_cache;
    string bkey = string(d.len) + d.conv;
    auto it = bare_cache.find(bkey);
    if (it == bare_cache.end())
    {
        vector<string> b;
        for (long long v : V)
        {
            Args a;
            a.push_back(len_is_wide(li) ? Arg::mkL(v) : Arg::mkI((int)v));
            b.push_back(run_ref("%" + bkey, a).text);
        }
        it = bare_cache.emplace(bkey, b).first;
    }
    const vector<string> &bare = it->second;

    uint64_t nt = 0;
    mc::crash_context("C06.print_i.crash.%c%s%s", d.conv, (d.flags & F_ALT) ? ".alt" : "", d.pkind ? ".prec" : "");
    for (size_t k = 0; k < V.size(); k++)
    {
        long long v = V[k];
        Args a;
        string f = render(d, a);
        a.push_back(len_is_wide(li) ? Arg::mkL(v) : Arg::mkI((int)v));
        Out got = run_impl(f, a);
        Out want = run_ref(f, a);
        if (got.text != want.text || got.emitted != want.emitted || (size_t)got.ret != got.emitted)
            compare(int_sig("text", d, v), int_sig("count", d, v), f, a, got, want);
        if (want.text != bare[k])
            nt++;
        mc::outcome(shape_of(want.text));
    }
    mc::crash_context("C06.harness");
    if (nt)
        mc::nontrivial();
    mc::more_cases(V.size() - 1, nt ? nt - 1 : 0);
}

// ------------------------------------------------------------------ (1b) flags in any order, repeated
static void flag_order_body()
{
    // every sequence of 0..3 flag characters (order and repetition matter to a parser, not to ISO)
    int seq = mc::choose(1 + 5 + 25 + 125);
    int ci = mc::choose(4);
    int wi = mc::choose(4);
    int pi = mc::choose(2);
    static const char CONV[4] = {'d', 'u', 'o', 'x'};
    string fl;
    {
        int n = seq == 0 ? 0 : seq <= 5 ? 1 : seq <= 30 ? 2 : 3;
        int r = seq - (n == 0 ? 0 : n == 1 ? 1 : n == 2 ? 6 : 31);
        for (int i = 0; i < n; i++)
        {
            fl += FLAGCH[r % 5];
            r /= 5;
        }
    }
    unsigned set = 0;
    for (char c : fl)
        for (int i = 0; i < 5; i++)
            if (FLAGCH[i] == c)
                set |= 1u << i;
    string f = "%" + fl;
    Args pre;
    if (wi == 1)
        f += "6";
    else if (wi == 2)
    {
        f += "*";
        pre.push_back(Arg::mkI(-6));
    }
    else if (wi == 3)
        f += "10";
    if (pi)
        f += ".3";
    f += CONV[ci];
    f = "{" + f + "}";
    mc::describe("format %s x values 0, 42, -42", vis(f).c_str());
    if (!flags_defined(set, CONV[ci]))
    {
        mc::count("excluded_undefined_by_iso", 3);
        return;
    }
    mc::crash_context("C06.parser.crash.flag_sequence");
    static const int VALS[3] = {0, 42, -42};
    for (int v : VALS)
    {
        Args a = pre;
        a.push_back(Arg::mkI(v));
        Out got = run_impl(f, a), want = run_ref(f, a);
        compare("C06.parser.text.flag_sequence", "C06.parser.count.flag_sequence", f, a, got, want);
        mc::outcome(want.text);
    }
    mc::crash_context("C06.harness");
    if (fl.size() >= 2)
        mc::nontrivial(); // at least two flag characters: order or repetition is exercised
    mc::more_cases(2, fl.size() >= 2 ? 2 : 0);
}

// ------------------------------------------------------------------ (2) %c
static void chars_body()
{
    static const Opt W[] = {{0, 0}, {1, 1}, {1, 2}, {1, 5}, {1, 10}, {2, 0}, {2, 1}, {2, 5}, {2, -5}, {2, -1}};
    const int NW = sizeof W / sizeof W[0];
    // values: every unsigned char, plus ints outside 0..255 (converted to unsigned char by ISO)
    static const int EXTRA[] = {-1, -128, -129, 256, 256 + 'A', 0x7f00 + 'z', INT_MAX, INT_MIN, INT_MIN + 'q'};
    const int NX = sizeof EXTRA / sizeof EXTRA[0];
    int vi = mc::choose(256 + NX);
    int v = vi < 256 ? vi : EXTRA[vi - 256];
    int fi = mc::choose(8); // subsets of - + space
    int wi = mc::choose(NW);
    int lmod = mc::choose(2);
    Dir d;
    d.flags = (unsigned)fi;
    d.conv = 'c';
    d.wkind = W[wi].kind;
    d.w = W[wi].v;
    d.len = lmod ? "l" : "";
    Args a;
    string f = "<" + render(d, a) + ">";
    a.push_back(Arg::mkI(v));
    mc::describe("format %s args [%s]", vis(f).c_str(), show_args(a).c_str());
    if (lmod && !(v >= 0 && v < 128))
    { // %lc of a non-ASCII wint_t depends on the locale's multibyte encoding
        mc::count("skipped_lc_non_ascii");
        return;
    }
    unsigned char uc = (unsigned char)v;
    string cls = uc == 0 ? "nul" : uc >= 0x80 ? "high" : "ascii";
    if (lmod)
        cls += ".l";
    mc::crash_context("C06.print_c.crash.%s", cls.c_str());
    Out got = run_impl(f, a), want = run_ref(f, a);
    compare("C06.print_c.text." + cls, "C06.print_c.count." + cls, f, a, got, want);
    mc::crash_context("C06.harness");
    if (want.text.size() > 3 || uc == 0 || v != (int)uc)
        mc::nontrivial(); // padded, the NUL character, or an int that had to be converted to unsigned char
    mc::outcome(want.text);
}

// ------------------------------------------------------------------ (3) %s against a guard page
struct GStr
{
    std::unique_ptr<guard::Region> r;
    size_t len;
    bool terminated;
    string name;
};
static vector<GStr> &gstrings()
{
    static vector<GStr> g;
    if (!g.empty())
        return g;
    auto add = [&](const string &content, bool term, const char *nm) {
        GStr s;
        s.len = content.size();
        s.terminated = term;
        s.name = nm;
        s.r.reset(new guard::Region(content.size() + (term ? 1 : 0), true, 'G'));
        memcpy(s.r->p, content.data(), content.size());
        if (term)
            s.r->p[content.size()] = 0;
        g.push_back(std::move(s));
    };
    string s20 = "hello, world: 20 ch.";
    add("", true, "empty");
    add("a", true, "a");
    add("abc", true, "abc");
    add(s20, true, "20chars");
    add("%d%s%n", true, "percent-signs");
    add("\xff\x80\x01", true, "high-bytes");
    add("", false, "unterminated0");
    add("a", false, "unterminated1");
    add("abc", false, "unterminated3");
    add(s20, false, "unterminated20");
    return g;
}
static void strings_body()
{
    static const Opt W[] = {{0, 0}, {1, 1}, {1, 2}, {1, 3}, {1, 5}, {1, 20}, {1, 25}, {2, 0}, {2, 5}, {2, -5}, {2, 25}, {2, -25}};
    static const Opt P[] = {{0, 0},  {1, 0},  {2, 0},  {2, 1},  {2, 2},  {2, 3},  {2, 4}, {2, 19}, {2, 20},
                            {2, 21}, {2, 30}, {3, 0},  {3, 1},  {3, 3},  {3, 20}, {3, 21}, {3, -1}};
    const int NW = sizeof W / sizeof W[0], NP = sizeof P / sizeof P[0];
    vector<GStr> &G = gstrings();
    int unit = mc::choose((int)G.size() * 8);
    GStr &s = G[unit / 8];
    int wi = mc::choose(NW), pi = mc::choose(NP);
    Dir d;
    d.flags = (unsigned)(unit % 8);
    d.conv = 's';
    d.wkind = W[wi].kind;
    d.w = W[wi].v;
    d.pkind = P[pi].kind;
    d.p = P[pi].v;
    Args a;
    string f = "[" + render(d, a) + "]";
    a.push_back(Arg::mkP(s.r->p));
    mc::describe("format %s (width arg %d, precision arg %d) string=%s (%zu bytes, %s, next byte is an inaccessible page)", vis(f).c_str(),
                 d.w, d.p, s.name.c_str(), s.len, s.terminated ? "NUL-terminated" : "no terminator");
    bool has_prec = d.pkind == 1 || d.pkind == 2 || (d.pkind == 3 && d.p >= 0);
    int prec = d.pkind == 2 || d.pkind == 3 ? d.p : 0;
    if (!s.terminated && !(has_prec && (size_t)prec <= s.len))
    { // ISO requires a terminator unless the precision does not exceed the array size
        mc::count("excluded_undefined_by_iso");
        return;
    }
    string cls = s.terminated ? "terminated" : "unterminated_with_precision";
    mc::crash_context("C06.print_s.crash.%s", cls.c_str());
    Out got, want;
    bool ok = mc::guarded([&] { got = run_impl(f, a); });
    if (!ok)
    {
        mc::violation("C06.print_s.overread." + cls,
                      "format %s: the engine read past the %zu accessible bytes of the %s argument (precision %d) and faulted on the guard page",
                      vis(f).c_str(), s.len + (s.terminated ? 1 : 0), s.name.c_str(), has_prec ? prec : -1);
        return;
    }
    want = run_ref(f, a);
    compare("C06.print_s.text." + cls, "C06.print_s.count." + cls, f, a, got, want);
    mc::crash_context("C06.harness");
    if (!s.terminated || (has_prec && (size_t)prec < s.len) || want.text.size() > s.len + 2)
        mc::nontrivial(); // no terminator, truncated by the precision, or padded
    mc::outcome(want.text);
}

// %ls / wide strings: ISO defines the l modifier for s (wchar_t array converted to multibyte)
static void wide_strings_body()
{
    static const wchar_t *WS[] = {L"", L"a", L"abc", L"wide string"};
    static const Opt W[] = {{0, 0}, {1, 5}, {1, 15}, {2, -15}};
    static const Opt P[] = {{0, 0}, {1, 0}, {2, 2}, {2, 30}, {3, 1}};
    int si = mc::choose(4), wi = mc::choose(4), pi = mc::choose(5), fl = mc::choose(2);
    Dir d;
    d.flags = fl ? F_LEFT : 0;
    d.conv = 's';
    d.len = "l";
    d.wkind = W[wi].kind;
    d.w = W[wi].v;
    d.pkind = P[pi].kind;
    d.p = P[pi].v;
    Args a;
    string f = "[" + render(d, a) + "]";
    a.push_back(Arg::mkP(WS[si]));
    mc::describe("format %s (width arg %d, precision arg %d) wide string #%d (%zu ASCII wide characters)", vis(f).c_str(), d.w, d.p, si,
                 wcslen(WS[si]));
    mc::crash_context("C06.print_s.crash.wide");
    Out got = run_impl(f, a), want = run_ref(f, a);
    compare("C06.print_s.text.wide", "C06.print_s.count.wide", f, a, got, want);
    mc::crash_context("C06.harness");
    if (wcslen(WS[si]) > 1)
        mc::nontrivial();
    mc::outcome(want.text);
}

// ------------------------------------------------------------------ (4) %p
static void pointers_body()
{
    static const uintptr_t PV[] = {0,
                                   1,
                                   0xabc,
                                   0x1234,
                                   0xdeadbeef,
                                   0x100000000ull,
                                   0x7ffff7dd1234ull,
                                   0x7fffffffffffffffull,
                                   0x8000000000000000ull,
                                   0xfedcba9876543210ull,
                                   ~(uintptr_t)0};
    static const Opt W[] = {{0, 0},  {1, 1},  {1, 3},  {1, 10}, {1, 17}, {1, 18}, {1, 19},  {1, 20},
                            {1, 30}, {2, 0},  {2, 18}, {2, 19}, {2, 30}, {2, -3}, {2, -19}, {2, -30}};
    const int NV = sizeof PV / sizeof PV[0], NW = sizeof W / sizeof W[0];
    int unit = mc::choose(NV * 8);
    uintptr_t pv = PV[unit / 8];
    int wi = mc::choose(NW);
    Dir d;
    d.flags = (unsigned)(unit % 8);
    d.conv = 'p';
    d.wkind = W[wi].kind;
    d.w = W[wi].v;
    Args a;
    string f = render(d, a);
    a.push_back(Arg::mkP((const void *)pv));
    mc::describe("format %s (width arg %d) pointer value 0x%llx", vis(f).c_str(), d.w, (unsigned long long)pv);
    string cls = pv == 0 ? "null" : "nonnull";
    mc::crash_context("C06.print_p.crash.%s", cls.c_str());
    Out got = run_impl(f, a);
    mc::crash_context("C06.harness");
    if ((size_t)got.ret != got.emitted || got.ret < 0)
        mc::violation("C06.print_p.count." + cls, "format %s pointer 0x%llx: returned %d but handed %zu characters to the callback",
                      vis(f).c_str(), (unsigned long long)pv, got.ret, got.emitted);
    // oracle: optional space padding on one side, then "0x" + hex digits that parse back to the pointer
    bool left = (d.flags & F_LEFT) || (d.wkind == 2 && d.w < 0);
    size_t width = d.wkind == 0 ? 0 : (size_t)(d.w < 0 ? -(long)d.w : d.w);
    string t = got.text;
    size_t b = 0, e = t.size();
    if (left)
        while (e > b && t[e - 1] == ' ')
            e--;
    else
        while (b < e && t[b] == ' ')
            b++;
    string body = t.substr(b, e - b);
    bool shape = body.size() >= 3 && body[0] == '0' && (body[1] == 'x' || body[1] == 'X');
    unsigned long long back = 0;
    if (shape)
    {
        for (size_t i = 2; i < body.size(); i++)
            shape &= isxdigit((unsigned char)body[i]) != 0;
        shape &= body.size() - 2 <= 64;
        if (shape)
        {
            // drop leading zeros so that strtoull cannot overflow on a zero-padded 64-bit value
            size_t i = 2;
            while (i + 1 < body.size() && body[i] == '0')
                i++;
            shape &= body.size() - i <= 16;
            if (shape)
                back = strtoull(body.c_str() + i, nullptr, 16);
        }
    }
    if (!shape)
        mc::violation("C06.print_p.shape." + cls, "format %s pointer 0x%llx: emitted %s, which is not padding + 0x + hex digits", vis(f).c_str(),
                      (unsigned long long)pv, vis(t).c_str());
    else if (back != (unsigned long long)pv)
        mc::violation("C06.print_p.value." + cls, "format %s pointer 0x%llx: emitted %s, which parses back to 0x%llx", vis(f).c_str(),
                      (unsigned long long)pv, vis(t).c_str(), back);
    else
    {
        size_t wantlen = body.size() > width ? body.size() : width;
        if (t.size() != wantlen)
            mc::violation("C06.print_p.padding." + cls,
                          "format %s pointer 0x%llx: emitted %s (%zu characters); a %zu-character body in a field of %zu %s-justified needs %zu",
                          vis(f).c_str(), (unsigned long long)pv, vis(t).c_str(), t.size(), body.size(), width, left ? "left" : "right",
                          wantlen);
    }
    if (width > 18 || pv == 0 || pv >> 63)
        mc::nontrivial(); // padded, the null pointer, or a pointer with the top bit set
    mc::outcome(got.text.size() > 40 ? "long" : mc::fmt("len%zu%s", got.text.size(), left ? "L" : "R"));
}

// ------------------------------------------------------------------ (5) literal text and multi-directive formats
struct Part
{
    const char *frag;
    Args args;
    bool is_p; // %p: glibc is not the reference (prints "(nil)" and no leading zeros)
};
static vector<Part> &parts()
{
    static vector<Part> p;
    if (!p.empty())
        return p;
    auto I = [](int v) { return Arg::mkI(v); };
    auto L = [](long long v) { return Arg::mkL(v); };
    auto S = [](const char *v) { return Arg::mkP(v); };
    p.push_back({"%d", {I(-42)}, false});
    p.push_back({"%u", {I((int)3000000000u)}, false});
    p.push_back({"%x", {I((int)0xdeadbeefu)}, false});
    p.push_back({"%ld", {L(-5000000000LL)}, false});
    p.push_back({"%lld", {L(LLONG_MIN)}, false});
    p.push_back({"%llu", {L(-1)}, false});
    p.push_back({"%zu", {L(1000000000000LL)}, false});
    p.push_back({"%jd", {L(-1)}, false});
    p.push_back({"%td", {L(-77)}, false});
    p.push_back({"%hhd", {I(0x1ff)}, false});
    p.push_back({"%hu", {I(0x12345)}, false});
    p.push_back({"%c", {I('Z')}, false});
    p.push_back({"%s", {S("str")}, false});
    p.push_back({"%.2s", {S("abcdef")}, false});
    p.push_back({"%*d", {I(6), I(-3)}, false});
    p.push_back({"%-*d", {I(4), I(9)}, false});
    p.push_back({"%.*d", {I(4), I(5)}, false});
    p.push_back({"%*.*lx", {I(14), I(12), L(0xabcdef0123LL)}, false});
    p.push_back({"%p", {Arg::mkP((const void *)0x1234)}, true});
    p.push_back({"%%", {}, false});
    p.push_back({"abc", {}, false});
    p.push_back({"\xc3\xa9\x01\xff", {}, false});
    p.push_back({"%#o", {I(8)}, false});
    p.push_back({"%+.3d", {I(5)}, false});
    p.push_back({"%05d", {I(-42)}, false});
    p.push_back({"%5s", {S("")}, false});
    p.push_back({"%-3c", {I('q')}, false});
    p.push_back({"%c", {I(0)}, false});   // the NUL character is an output character like any other: it must be stored and counted
    p.push_back({"%3c", {I(0x100)}, false}); // converted to unsigned char: NUL again, padded
    p.push_back({"%hhx", {I(-1)}, false});
    p.push_back({"%lo", {L(1LL << 40)}, false});
    p.push_back({"%i", {I(INT_MIN)}, false});
    p.push_back({"%12X", {I(255)}, false});
    p.push_back({"%-8.3llx", {L(0x1ffffffffLL)}, false});
    // parts whose whole output is empty: an entry point must still terminate its buffer
    p.push_back({"", {}, false});
    p.push_back({"%s", {S("")}, false});
    p.push_back({"%.0d", {I(0)}, false});
    p.push_back({"%.*s", {I(0), S("never read")}, false});
    return p;
}
static void mixed_body()
{
    static const char *SEP[] = {"", " ", "ab", "%%", "\n"};
    vector<Part> &P = parts();
    int n = (int)P.size();
    // the first choice is wide (sharding unit); a one-directive format exists once per first part
    int idx[3] = {0, 0, 0};
    int combo = mc::choose(n * n);
    idx[0] = combo % n;
    idx[1] = combo / n;
    int arity = idx[1] == 0 ? 1 + mc::choose(3) : 2 + mc::choose(2);
    if (arity == 3)
        idx[2] = mc::choose(n);
    int si = arity == 1 ? 0 : mc::choose(arity == 2 ? 5 : 2);
    int wrap = mc::choose(2); // literal text around the whole format
    string f = wrap ? "x" : "";
    Args a;
    string expect = f;
    bool any_p = false;
    for (int k = 0; k < arity; k++)
    {
        if (k)
        {
            f += SEP[si];
            expect += (string(SEP[si]) == "%%") ? "%" : SEP[si];
        }
        const Part &pt = P[idx[k]];
        f += pt.frag;
        a.insert(a.end(), pt.args.begin(), pt.args.end());
        any_p |= pt.is_p;
        // expectation for the part alone: glibc, or (for %p, checked by its own sub-check) the engine itself
        expect += pt.is_p ? run_impl(pt.frag, pt.args).text : run_ref(pt.frag, pt.args).text;
    }
    if (wrap)
    {
        f += "yz";
        expect += "yz";
    }
    mc::describe("format %s args [%s]", vis(f).c_str(), show_args(a).c_str());
    if ((int)a.size() > PF_MAXARGS)
    {
        mc::count("skipped_more_than_6_arguments");
        return;
    }
    mc::crash_context("C06.format.crash.multi");
    Out got = run_impl(f, a);
    mc::crash_context("C06.harness");
    Out want;
    want.text = expect;
    want.emitted = expect.size();
    want.ret = (int)expect.size();
    string cls = arity == 1 ? "single" : "multi";
    compare("C06.format.text." + cls, "C06.format.count." + cls, f, a, got, want);
    if (!any_p)
    { // cross-check of the harness's own concatenation rule against glibc on the whole format
        Out whole = run_ref(f, a);
        if (whole.text != expect)
            mc::harness_error("concatenation rule disagrees with glibc on %s: %s vs %s", vis(f).c_str(), vis(expect).c_str(),
                              vis(whole.text).c_str());
    }
    if (arity >= 2 && a.size() >= 2)
        mc::nontrivial(); // at least two arguments are fetched in sequence
    mc::outcome(mc::fmt("%d directives, %zu arguments, %zu characters", arity, a.size(), expect.size()));
}

// ------------------------------------------------------------------ (6) the libc entry points built on the engine
extern "C"
{
    int igc_sprintf(char *buf, const char *format, ...);
    int igc_vsprintf(char *s, const char *format, va_list ap);
    int igc_fdprintf(int fd, const char *format, ...);
    int igc_vfdprintf(int fd, const char *format, va_list args);

    long igc_write(int fd, const void *buf, unsigned long n);
}
// Environment of fdprintf.c / fdputc.c: the write() they reach (directly or through the repository's fdputc) is
// this device. It records what arrives on which descriptor and can fail from a given byte on (short write first,
// then the error), so the check does not depend on how the library batches its output.
static string g_fd_out;
static int g_fd_seen = -1;
static long g_fd_fail_at = -1; // index of the first character whose write fails
static long g_fd_calls = 0;    // bytes offered so far
long igc_write(int fd, const void *buf, unsigned long n)
{
    g_fd_seen = fd;
    const char *p = (const char *)buf;
    unsigned long done = 0;
    for (; done < n; done++)
    {
        long k = g_fd_calls++;
        if (g_fd_fail_at >= 0 && k >= g_fd_fail_at)
        {
            g_fd_calls--;
            return done ? (long)done : -5;
        }
        g_fd_out.push_back(p[done]);
    }
    return (long)n;
}
// typed variadic calls of the entry points (c06_dispatch.cpp): 0 sprintf, 1 vsprintf, 2 fdprintf, 3 vfdprintf, 4 snprintf
// fd: the descriptor handed to fdprintf / vfdprintf (every non-negative descriptor is valid: 0 is what open() returns
// after close(0) and the first device on a bare-metal target)
int run_entry(int which, char *buf, size_t size, int fd, const char *fmt, const Args &a);
static const int FDS[5] = {0, 1, 2, 7, 1000000};
static void entries_body()
{
    static const char *ENT[] = {"sprintf", "vsprintf", "fdprintf", "vfdprintf", "snprintf"};
    vector<Part> &P = parts();
    int n = (int)P.size();
    int combo = mc::choose(n * n);
    int which = mc::choose(5);
    int sep = mc::choose(2); // "|" between the parts, or nothing (so that the whole output can be empty)
    bool fd = which == 2 || which == 3;
    int failmode = fd ? mc::choose(3) : mc::choose(1); // fd entries: no failure / first char fails / third char fails
    int the_fd = FDS[fd ? mc::choose(5) : mc::choose(1)];
    const Part &p0 = P[combo % n], &p1 = P[combo / n];
    string f = string(p0.frag) + (sep ? "" : "|") + p1.frag;
    Args a = p0.args;
    a.insert(a.end(), p1.args.begin(), p1.args.end());
    mc::describe("%s(%s) args [%s] write-failure mode %d%s", ENT[which], vis(f).c_str(), show_args(a).c_str(), failmode,
                 fd ? mc::fmt(" descriptor %d", the_fd).c_str() : "");
    string expect = (p0.is_p ? run_impl(p0.frag, p0.args).text : run_ref(p0.frag, p0.args).text) + (sep ? "" : "|") +
                    (p1.is_p ? run_impl(p1.frag, p1.args).text : run_ref(p1.frag, p1.args).text);
    string e = ENT[which];
    string ecls = expect.empty() ? ".empty_output" : "";
    mc::crash_context("C06.%s.crash", e.c_str());
    if (!fd)
    {
        // Exactly-sized heap buffer (text + terminator: ASan reports the first byte beyond it), pre-filled
        // with a non-zero pattern: buf[0..ret) must be the text, buf[ret] the terminator that the call
        // itself wrote, and every byte after ret+1 must still hold the pattern.
        size_t need = expect.size() + 1;
        char *buf = (char *)malloc(need);
        memset(buf, 0x5A, need);
        int r = run_entry(which, buf, need, -1, f.c_str(), a);
        mc::crash_context("C06.harness");
        string whole(buf, need);
        if (r != (int)expect.size())
            mc::violation("C06." + e + ".retval" + ecls, "%s(%s): returned %d, %zu characters were due", e.c_str(), vis(f).c_str(), r,
                          expect.size());
        size_t rr = r < 0 ? 0 : (size_t)r < need ? (size_t)r : need - 1;
        if (whole.compare(0, rr, expect, 0, rr) != 0 || rr != expect.size())
            mc::violation("C06." + e + ".text" + ecls, "%s(%s): buffer starts with %s, expected %s", e.c_str(), vis(f).c_str(),
                          vis(whole.substr(0, rr)).c_str(), vis(expect).c_str());
        if (buf[rr] != 0)
            mc::violation("C06." + e + ".unterminated" + ecls,
                          "%s(%s): returned %d but buf[%zu] is 0x%02x (the pre-fill pattern is 0x5a), not the terminator; buffer: %s", e.c_str(),
                          vis(f).c_str(), r, rr, (unsigned char)buf[rr], vis(whole).c_str());
        for (size_t k = rr + 1; k < need; k++)
            if (buf[k] != 0x5A)
            {
                mc::violation("C06." + e + ".wrote_beyond_terminator" + ecls, "%s(%s): byte %zu after the terminator at %zu was overwritten; buffer: %s",
                              e.c_str(), vis(f).c_str(), k, rr, vis(whole).c_str());
                break;
            }
        free(buf);
    }
    else
    {
        g_fd_out.clear();
        g_fd_calls = 0;
        g_fd_seen = -1;
        g_fd_fail_at = failmode == 0 ? -1 : failmode == 1 ? 0 : 2;
        int r = run_entry(which, nullptr, 0, the_fd, f.c_str(), a);
        mc::crash_context("C06.harness");
        if (failmode == 0)
        {
            if (g_fd_out != expect)
                mc::violation("C06." + e + ".text", "%s(%d, %s): wrote %s, expected %s", e.c_str(), the_fd, vis(f).c_str(), vis(g_fd_out).c_str(),
                              vis(expect).c_str());
            if (r != (int)expect.size())
                mc::violation("C06." + e + ".retval", "%s(%d, %s): returned %d, %zu characters were due", e.c_str(), the_fd, vis(f).c_str(), r,
                              expect.size());
            if (!expect.empty() && g_fd_seen != the_fd)
                mc::violation("C06." + e + ".fd", "%s(%d, ...): wrote to descriptor %d", e.c_str(), the_fd, g_fd_seen);
        }
        else if ((long)expect.size() > g_fd_fail_at && r >= 0)
            mc::violation("C06." + e + ".error_lost", "%s(%d, %s): the write of character %ld failed but %d was returned", e.c_str(), the_fd,
                          vis(f).c_str(), g_fd_fail_at, r);
        g_fd_fail_at = -1;
    }
    if (a.size() >= 2 || failmode || expect.empty())
        mc::nontrivial(); // two or more arguments in sequence, an injected write failure, or an empty output
    mc::outcome(expect + (failmode ? "!" : ""));
}

// ------------------------------------------------------------------ (7) long: sizes around 2^7, 2^8 and beyond 2^16
// A counter, length or size narrowed to 8 or 16 bits inside the engine is invisible below 128/256/65536.
// Every dimension that is a count in the engine (string length, precision, width, zero fill, literal
// run, number of directives, total output) is taken through {127,128,255,256,257,300,1000,70000}.
static const int LONGN[8] = {127, 128, 255, 256, 257, 300, 1000, 70000};
struct LOpt
{
    int kind, v; // 0 none, 1 literal, 2 '*'
};
static vector<LOpt> long_opts()
{
    vector<LOpt> o;
    o.push_back({0, 0});
    for (int v : LONGN)
        o.push_back({1, v});
    for (int v : LONGN)
        o.push_back({2, v});
    return o;
}
static void compare_long(const string &kind, const string &what, const Out &got, const Out &want)
{
    if (got.ret < 0 || (size_t)got.ret != got.emitted)
        mc::violation("C06.long." + kind + ".count", "%s: returned %d but handed %zu characters to the callback (%d were due)", what.c_str(),
                      got.ret, got.emitted, want.ret);
    if (got.emitted != want.emitted || got.text != want.text)
    {
        size_t k = 0;
        while (k < got.text.size() && k < want.text.size() && got.text[k] == want.text[k])
            k++;
        mc::violation("C06.long." + kind + ".text",
                      "%s: %zu characters emitted, ISO C (glibc) gives %zu; first difference at offset %zu (got %s, want %s)", what.c_str(),
                      got.emitted, want.emitted, k, vis(got.text.substr(k, 12)).c_str(), vis(want.text.substr(k, 12)).c_str());
    }
    mc::outcome(mc::fmt("%s:%zu", kind.c_str(), want.emitted));
}
static string pattern_text(size_t n, unsigned seed)
{ // printable, no '%', position-dependent so that a dropped or repeated stretch shows
    string t(n, ' ');
    for (size_t i = 0; i < n; i++)
        t[i] = (char)('A' + (i * 7 + i / 251 + seed) % 57 % 26 + ((i / 13) & 1) * 32);
    return t;
}
struct LStr
{
    std::unique_ptr<guard::Region> r;
    size_t len;
    bool terminated;
};
static LStr &long_string(int li, bool term)
{
    static LStr tab[8][2];
    LStr &s = tab[li][term];
    if (!s.r)
    {
        s.len = (size_t)LONGN[li];
        s.terminated = term;
        s.r.reset(new guard::Region(s.len + (term ? 1 : 0), true, 'G'));
        string t = pattern_text(s.len, (unsigned)li);
        memcpy(s.r->p, t.data(), s.len);
        if (term)
            s.r->p[s.len] = 0;
    }
    return s;
}
static void long_strings_body()
{
    static vector<LOpt> O = long_opts();
    int unit = mc::choose(8 * 2 * 2 * 2); // length x terminated x '-' x second string variant (short)
    int li = unit % 8;
    bool term = (unit / 8) % 2;
    bool left = (unit / 16) % 2;
    bool shortstr = (unit / 32) % 2; // a 3-character string in a long field, instead of the long string
    int wi = mc::choose((int)O.size()), pi = mc::choose((int)O.size());
    Dir d;
    d.flags = left ? F_LEFT : 0;
    d.conv = 's';
    d.wkind = O[wi].kind;
    d.w = O[wi].v;
    d.pkind = O[pi].kind == 0 ? 0 : O[pi].kind + 1;
    d.p = O[pi].v;
    Args a;
    string f = "[" + render(d, a) + "]";
    LStr &s = long_string(li, term);
    static const char three[] = "abc";
    a.push_back(Arg::mkP(shortstr ? (const void *)three : (const void *)s.r->p));
    mc::describe("format %s (width arg %d, precision arg %d), string of %zu bytes %s", vis(f).c_str(), d.w, d.p, shortstr ? (size_t)3 : s.len,
                 shortstr ? "(plain)" : term ? "(NUL-terminated, then an inaccessible page)" : "(no terminator, then an inaccessible page)");
    if (shortstr && (!term || li != 0))
        return; // the short string exists once per (flag, width, precision)
    if (!shortstr && !term && !(d.pkind && (size_t)d.p <= s.len))
    {
        mc::count("excluded_undefined_by_iso");
        return;
    }
    mc::crash_context("C06.long.string.crash");
    Out got, want;
    bool ok = mc::guarded([&] { got = run_impl(f, a); });
    if (!ok)
    {
        mc::violation("C06.long.string.overread", "format %s: the engine read past the %zu accessible bytes of the argument", vis(f).c_str(),
                      s.len + (term ? 1 : 0));
        return;
    }
    want = run_ref(f, a);
    mc::crash_context("C06.harness");
    compare_long("string", mc::fmt("format %s on a %zu-byte string", vis(f).c_str(), shortstr ? (size_t)3 : s.len), got, want);
    mc::nontrivial(); // every case has a length, width or precision of at least 127 ... or is the plain baseline
}
static void long_integers_body()
{
    static vector<LOpt> O = long_opts();
    static const struct
    {
        char conv;
        const char *len;
        long long v;
        bool wide;
    } IV[] = {{'d', "", 0, false}, {'d', "", -42, false}, {'x', "", 0xabc, false}, {'o', "ll", -1, true}, {'u', "l", 4294967296LL, true}, {'X', "hh", 0x1ff, false}};
    static const unsigned FL[] = {0, F_LEFT, F_ZERO, F_PLUS | F_ZERO, F_ALT, F_ALT | F_ZERO, F_LEFT | F_ZERO};
    const int NIV = sizeof IV / sizeof IV[0], NFL = sizeof FL / sizeof FL[0];
    int unit = mc::choose(NIV * NFL);
    int wi = mc::choose((int)O.size()), pi = mc::choose((int)O.size());
    Dir d;
    d.conv = IV[unit % NIV].conv;
    d.len = IV[unit % NIV].len;
    d.flags = FL[unit / NIV];
    d.wkind = O[wi].kind;
    d.w = O[wi].v;
    d.pkind = O[pi].kind == 0 ? 0 : O[pi].kind + 1;
    d.p = O[pi].v;
    Args a;
    string f = "<" + render(d, a) + ">";
    a.push_back(IV[unit % NIV].wide ? Arg::mkL(IV[unit % NIV].v) : Arg::mkI((int)IV[unit % NIV].v));
    mc::describe("format %s (width arg %d, precision arg %d) value %lld", vis(f).c_str(), d.w, d.p, IV[unit % NIV].v);
    if (!flags_defined(d.flags, d.conv))
    {
        mc::count("excluded_undefined_by_iso");
        return;
    }
    mc::crash_context("C06.long.integer.crash");
    Out got = run_impl(f, a), want = run_ref(f, a);
    mc::crash_context("C06.harness");
    compare_long("integer", mc::fmt("format %s args [%s]", vis(f).c_str(), show_args(a).c_str()), got, want);
    if (d.wkind || d.pkind)
        mc::nontrivial();
}
static void long_chars_and_text_body()
{
    // %c in a long field; long runs of literal text before / between / after directives
    int kind = mc::choose(2);
    if (kind == 0)
    {
        int li = mc::choose(8), star = mc::choose(2), left = mc::choose(2), ch = mc::choose(3);
        static const int CH[3] = {'A', 0, 0xE9};
        Dir d;
        d.conv = 'c';
        d.flags = left ? F_LEFT : 0;
        d.wkind = star ? 2 : 1;
        d.w = LONGN[li];
        Args a;
        string f = "<" + render(d, a) + ">";
        a.push_back(Arg::mkI(CH[ch]));
        mc::describe("format %s (width arg %d) char %d", vis(f).c_str(), d.w, CH[ch]);
        mc::crash_context("C06.long.char.crash");
        Out got = run_impl(f, a), want = run_ref(f, a);
        mc::crash_context("C06.harness");
        compare_long("char", mc::fmt("format %s char %d", vis(f).c_str(), CH[ch]), got, want);
        mc::nontrivial();
    }
    else
    {
        int li = mc::choose(8), place = mc::choose(4), hi = mc::choose(2);
        string t = pattern_text((size_t)LONGN[li], 3);
        if (hi)
            for (size_t i = 5; i < t.size(); i += 97)
                t[i] = (char)(0x80 + i % 127); // bytes above 0x7f in the literal run
        string f;
        Args a;
        switch (place)
        {
        case 0:
            f = t;
            break;
        case 1:
            f = t + "%d";
            a.push_back(Arg::mkI(-42));
            break;
        case 2:
            f = "%lld" + t + "%s";
            a.push_back(Arg::mkL(LLONG_MIN));
            a.push_back(Arg::mkP("tail"));
            break;
        default:
            f = "%c" + t + "%%" + t + "%x";
            a.push_back(Arg::mkI('q'));
            a.push_back(Arg::mkI(255));
            break;
        }
        mc::describe("literal run of %d characters%s, placement %d, args [%s]", LONGN[li], hi ? " with bytes above 0x7f" : "", place,
                     show_args(a).c_str());
        mc::crash_context("C06.long.literal.crash");
        Out got = run_impl(f, a), want = run_ref(f, a);
        mc::crash_context("C06.harness");
        compare_long("literal", mc::fmt("literal run of %d characters, placement %d", LONGN[li], place), got, want);
        mc::nontrivial();
    }
}
// formats with many directives (c06_dispatch.cpp): argument k is int, long long, char*, int(%c) for k%4 = 0..3
Out run_impl300(const string &fmt);
Out run_ref300(const string &fmt);
static void long_directive_counts_body()
{
    static const int ND[] = {1, 4, 127, 128, 129, 255, 256, 257, 299, 300};
    static const char *DEC[][4] = {{"%d", "%lld", "%s", "%c"},
                                   {"%5d", "%-22lld", "%.2s", "%3c"},
                                   {"%+.3d", "%#llx", "%12s", "%-2c"},
                                   {"%012d", "%.21lld", "%-5.1s", "%c"}};
    static const char *SEP[] = {"", " ", "%%", ", text "};
    int ni = mc::choose(10), di = mc::choose(4), si = mc::choose(4);
    string f;
    for (int k = 0; k < ND[ni]; k++)
    {
        if (k)
            f += SEP[si];
        f += DEC[di][k % 4];
    }
    mc::describe("%d directives, decoration set %d, separator %s (format of %zu characters)", ND[ni], di, vis(SEP[si]).c_str(), f.size());
    mc::crash_context("C06.long.directives.crash");
    Out got = run_impl300(f), want = run_ref300(f);
    mc::crash_context("C06.harness");
    compare_long("directives", mc::fmt("%d directives, decoration set %d, separator %s", ND[ni], di, vis(SEP[si]).c_str()), got, want);
    if (ND[ni] >= 127)
        mc::nontrivial();
}
static void long_entries_body()
{
    static const char *ENT[] = {"sprintf", "vsprintf", "fdprintf", "vfdprintf", "snprintf"};
    int which = mc::choose(5), fi = mc::choose(6), li = mc::choose(7);
    static const int LEN[7] = {255, 256, 257, 300, 512, 65536, 70000};
    int n = LEN[li];
    string f;
    Args a;
    string big = pattern_text((size_t)n, 11);
    switch (fi)
    {
    case 0:
        f = "%" + std::to_string(n) + "d";
        a.push_back(Arg::mkI(-7));
        break;
    case 1:
        f = "%-*s|";
        a.push_back(Arg::mkI(n));
        a.push_back(Arg::mkP("left"));
        break;
    case 2:
        f = "%s";
        a.push_back(Arg::mkP(big.c_str()));
        break;
    case 3:
        f = big;
        break;
    case 4:
        f = "%." + std::to_string(n) + "x";
        a.push_back(Arg::mkI(0xbeef));
        break;
    default:
        f = "%d" + big + "%.*s";
        a.push_back(Arg::mkI(1));
        a.push_back(Arg::mkI(n));
        a.push_back(Arg::mkP(big.c_str()));
        break;
    }
    mc::describe("%s with format kind %d and a result of about %d characters", ENT[which], fi, n);
    string expect = run_ref(f, a).text;
    string e = ENT[which];
    string what = mc::fmt("%s, format kind %d, %zu characters due", e.c_str(), fi, expect.size());
    mc::crash_context("C06.long.entry.%s.crash", e.c_str());
    bool fd = which == 2 || which == 3;
    if (!fd)
    {
        size_t need = expect.size() + 1;
        char *buf = (char *)malloc(need);
        memset(buf, 0x5A, need);
        int r = run_entry(which, buf, need, -1, f.c_str(), a);
        mc::crash_context("C06.harness");
        if (r != (int)expect.size())
            mc::violation("C06.long.entry." + e + ".retval", "%s: returned %d", what.c_str(), r);
        else if (memcmp(buf, expect.data(), expect.size()) != 0)
            mc::violation("C06.long.entry." + e + ".text", "%s: buffer differs from the reference text", what.c_str());
        else if (buf[expect.size()] != 0)
            mc::violation("C06.long.entry." + e + ".unterminated", "%s: no terminator at buf[%zu]", what.c_str(), expect.size());
        free(buf);
    }
    else
    {
        g_fd_out.clear();
        g_fd_calls = 0;
        g_fd_fail_at = -1;
        int r = run_entry(which, nullptr, 0, FDS[fi % 5], f.c_str(), a);
        mc::crash_context("C06.harness");
        if (r != (int)expect.size())
            mc::violation("C06.long.entry." + e + ".retval", "%s: returned %d", what.c_str(), r);
        if (g_fd_out != expect)
            mc::violation("C06.long.entry." + e + ".text", "%s: %zu characters written, they differ from the reference text", what.c_str(),
                          g_fd_out.size());
    }
    mc::nontrivial();
    mc::outcome(mc::fmt("entry:%zu", expect.size()));
}

// ------------------------------------------------------------------ (8) re-entrant output callback
// The engine hands characters to a callback while a conversion is in progress.  A callback that itself
// formats something through the engine (a logger with a time stamp, a line-number prefix) must not
// disturb the outer call: digits built in static scratch memory would be overwritten by the nested call.
static void reentrant_callback_body()
{
    vector<Part> &P = parts();
    int n = (int)P.size();
    int combo = mc::choose(n * n);
    static const int PERIOD[4] = {1, 2, 5, 11};
    int pi = mc::choose(4), kind = mc::choose(NEST_KINDS);
    const Part &p0 = P[combo % n], &p1 = P[combo / n];
    string f = string(p0.frag) + "~" + p1.frag;
    Args a = p0.args;
    a.insert(a.end(), p1.args.begin(), p1.args.end());
    mc::describe("format %s args [%s]; after every %d%s output character the callback runs nested format #%d through the engine", vis(f).c_str(),
                 show_args(a).c_str(), PERIOD[pi], PERIOD[pi] == 1 ? "" : "th", kind);
    mc::crash_context("C06.reentrant_callback.crash");
    Out plain = run_impl(f, a);
    size_t calls = 0;
    string bad;
    Out got = run_impl_nested(f, a, PERIOD[pi], kind, &calls, &bad);
    mc::crash_context("C06.harness");
    if (got.text != plain.text || got.ret != plain.ret || got.emitted != plain.emitted)
        mc::violation("C06.reentrant_callback.outer_text",
                      "format %s args [%s]: with a callback that formats through the engine (%zu nested calls) the outer call emitted %s and "
                      "returned %d; undisturbed it emits %s and returns %d",
                      vis(f).c_str(), show_args(a).c_str(), calls, vis(got.text).c_str(), got.ret, vis(plain.text).c_str(), plain.ret);
    if (!bad.empty())
        mc::violation("C06.reentrant_callback.nested_text", "format %s args [%s]: %s", vis(f).c_str(), show_args(a).c_str(), bad.c_str());
    if (calls >= 2)
        mc::nontrivial(); // at least two nested calls ran inside the outer one
    mc::outcome(mc::fmt("%zu nested calls", calls));
}

MC_INIT
{
    for (unsigned f = 0; f < 32; f++)
        for (int c = 0; c < 6; c++)
        {
            if (flags_defined(f, ICONV[c]))
                g_fc.push_back({f, c});
            else
                g_fc_excluded++;
        }
    mc::add_check("integers", integers_body);
    mc::add_check("flag_sequences", flag_order_body);
    mc::add_check("chars", chars_body);
    mc::add_check("strings_guard_page", strings_body);
    mc::add_check("wide_strings", wide_strings_body);
    mc::add_check("pointers", pointers_body);
    mc::add_check("mixed_formats", mixed_body);
    mc::add_check("libc_entries", entries_body);
    mc::add_check("reentrant_callback", reentrant_callback_body);
    mc::add_check("long_strings", long_strings_body);
    mc::add_check("long_integers", long_integers_body);
    mc::add_check("long_chars_and_text", long_chars_and_text_body);
    mc::add_check("long_directive_counts", long_directive_counts_body);
    mc::add_check("long_entries", long_entries_body);
}
MC_MAIN
