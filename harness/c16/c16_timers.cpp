// C16 — timers fire exactly when due, in deadline order, without drift.
// Shape S: BFS over histories of plan / unplan / exec / delete / re-create on a
// real igris::timer_manager with N igris::timer<int> objects whose callbacks run
// small scripts (unplan / re-plan themselves or another timer).
//
// Reference = an earliest-deadline-first scheduler kept as a SET of (start,
// interval) per timer.  The statement fixes no order among EQUAL deadlines, so the
// reference is tie-agnostic: it is advanced from inside the real callbacks and
// checks, for every firing, that the timer is pending, that its deadline has been
// reached and that no pending timer has an earlier deadline; after the callback a
// timer that is still planned is re-armed at deadline + interval.  After every
// operation the pending set, emptiness, time to the next deadline and every
// deadline are compared, and after exec nothing pending may be due.
// Agreement with the FIFO tie order of the present implementation is only counted.
//
// Second part (tree): stimer_* due rule for all (start, interval, now) in [-3,12]^3.
#include "mc.hpp"
#include <algorithm>
#include <climits>
#include <cstdint>
#include <cstring>
#include <igris/datastruct/stimer.h>
#include <igris/time/timer_manager.h>
#include <new>
#include <string>
#include <type_traits>
#include <vector>

using std::string;
using std::vector;

// ---- igris/sync/syslock.h: the lock is an external dependency of timer_manager; single-threaded stub
static int g_lock_depth = 0;
extern "C" void system_lock(void) { ++g_lock_depth; }
extern "C" void system_unlock(void) { --g_lock_depth; }

typedef igris::timer<int> Timer;

enum Script
{
    S_NOP,
    S_UNPLAN_SELF,
    S_UNPLAN_O1,   // unplan timer (id+1)%N
    S_REPLAN_SELF, // manager.plan(self, now, 1)      (the manager then shifts it: due at now+2)
    S_PLAN_O1_DUE, // manager.plan(o1, now-2, 2)      (due immediately, fires in the same exec)
    S_PLAN_O1_FUT, // manager.plan(o1, now+1, 3)
    S_REPLAN_O1,   // manager.plan(o1) with its stored start/interval (re-sorts it behind equal deadlines)
    S_UNPLAN_O2,   // thorough only: unplan timer (id+2)%N
    S_PLAN_O2_DUE, // thorough only: manager.plan(o2, now-1, 1)
    S_MAX
};
static const char *script_name[] = {"nop", "unplan_self", "unplan_next", "replan_self(now,1)", "plan_next(now-2,2)",
                                    "plan_next(now+1,3)", "replan_next()", "unplan_next2", "plan_next2(now-1,1)"};

struct RefTimer
{
    bool alive = false, planned = false;
    int64_t start = 0, interval = 0;
    int script = 0;
    int64_t deadline() const { return start + interval; }
};

struct CallbackSink
{
    virtual void on_callback(int id) = 0;
};
static CallbackSink *g_model = nullptr;
static void timer_callback(int id);

struct Runaway
{
};
static const int FUEL = 1500; // firings per exec; the largest legitimate catch-up here is < 4*60
static const int MAXN = 4;

struct Op
{
    int kind, t, a, b;
};
enum
{
    K_PLAN3,
    K_PLAN1,
    K_UNPLAN,
    K_EXEC,
    K_DELETE,
    K_RECREATE
};
// unsigned time types: the difference now - start wraps, so a start ahead of now is "due" on the unchanged
// code; the alphabet for those instantiations keeps every start at or before now
static bool script_ok(int s, bool uns) { return !uns || (s != S_REPLAN_SELF && s != S_PLAN_O1_FUT); }
static const vector<Op> &ops_for(int N, int NS, bool uns = false)
{
    static vector<Op> tab[2][MAXN + 1][S_MAX + 1];
    vector<Op> &ops = tab[uns][N][NS];
    if (ops.empty())
    {
        static const int offs[] = {-2, 0, 1};
        for (int d : {0, 1, 2, 7})
            ops.push_back({K_EXEC, 0, d, 0});
        for (int t = 0; t < N; t++)
            for (int o : offs)
                for (int i = 1; i <= 3; i++)
                    if (!(uns && o > 0))
                        ops.push_back({K_PLAN3, t, o, i});
        for (int t = 0; t < N; t++)
            ops.push_back({K_PLAN1, t, 0, 0});
        for (int t = 0; t < N; t++)
            ops.push_back({K_UNPLAN, t, 0, 0});
        for (int t = 0; t < N; t++)
            ops.push_back({K_DELETE, t, 0, 0});
        for (int t = 0; t < N; t++)
            for (int s = 0; s < NS; s++)
                if (script_ok(s, uns))
                    ops.push_back({K_RECREATE, t, s, 0});
    }
    return ops;
}

struct Fifo
{ // pending timers in "deadline, then order of planning" order — informational, and the livelock pre-run
    int n = 0;
    int v[MAXN];
    void remove(int t)
    {
        int k = 0;
        for (int i = 0; i < n; i++)
            if (v[i] != t)
                v[k++] = v[i];
        n = k;
    }
    void insert(int pos, int t)
    {
        for (int i = n; i > pos; i--)
            v[i] = v[i - 1];
        v[pos] = t;
        n++;
    }
};

template <class Spec> struct TimerModelT : mc::Model, CallbackSink
{
    typedef typename Spec::time_t TT;
    typedef igris::timer_manager_basic<Spec> Mgr;
    typedef igris::timer_basic<Spec, int> Timer;
    static constexpr bool UNS = std::is_unsigned<TT>::value;
    int N, NS;
    int64_t horizon; // exec is not issued beyond base + this (-1: unbounded); makes the universe finite
    int64_t base = 0; // the clock starts here (2^31-3, 2^32-3, INT64_MAX-200: operands around the width boundaries)
    Mgr *mgr;
    Timer *tim[MAXN] = {nullptr, nullptr, nullptr, nullptr};
    int64_t now = 0;
    // reference
    RefTimer ref[MAXN];
    Fifo fifo;
    // per exec
    vector<int> log;
    bool in_exec = false, script_ran = false, tie_seen = false, fifo_differs = false;
    const vector<Op> &ops;

    // ASan build: every timer is its own exactly-sized heap block (use-after-free of a destroyed, still
    // linked timer is a report).  Plain build: placement-new in a per-slot arena that is poisoned after
    // destruction, so a dangling list pointer is deterministic (unknown node / non-canonical address).
#ifndef C16_ASAN
    alignas(16) unsigned char arena[MAXN][sizeof(Timer)];
#endif
    void destroy(int t)
    {
#ifdef C16_ASAN
        delete tim[t];
#else
        tim[t]->~Timer();
        memset(arena[t], 0xDD, sizeof(Timer));
#endif
        tim[t] = nullptr;
    }
    void create(int t, int script)
    {
#ifdef C16_ASAN
        tim[t] = new Timer(igris::make_delegate(timer_callback), (int)t);
#else
        tim[t] = new (arena[t]) Timer(igris::make_delegate(timer_callback), (int)t);
#endif
        ref[t] = RefTimer();
        ref[t].alive = true;
        ref[t].script = script;
    }

    explicit TimerModelT(int n, int64_t horizon_ = -1, int ns = 0, int64_t base_ = 0)
        : N(n), NS(ns ? ns : (mc::thorough() ? (int)S_MAX : (int)S_UNPLAN_O2)), horizon(horizon_), base(base_), ops(ops_for(n, NS, UNS))
    {
        now = base;
#ifndef C16_ASAN
        memset(arena, 0xDD, sizeof arena);
#endif
        mgr = new Mgr;
        for (int t = 0; t < N; t++)
            create(t, S_NOP);
        g_model = this;
    }
    ~TimerModelT()
    {
        // a manager list that reaches a destroyed timer was reported by check(); tearing such a universe
        // down would only crash the worker (and cost a sanitizer report per transition): leak it instead
        int ord[MAXN], n = 0;
        if (!impl_order(ord, n))
            return;
        // unplan, then timers, then the manager (destroying a timer that is still planned is an operation
        // of the search, K_DELETE; the teardown itself must not depend on it working)
        for (int t = 0; t < N; t++)
            if (tim[t])
                tim[t]->unplan();
        for (int t = 0; t < N; t++)
            if (tim[t])
                destroy(t);
        delete mgr;
        if (g_model == this)
            g_model = nullptr;
    }
    int nops() override { return (int)ops.size(); }
    string opname(int o) override
    {
        const Op &p = ops[o];
        switch (p.kind)
        {
        case K_PLAN3:
            return mc::fmt("plan(t%d,now%+d,%d)", p.t, p.a, p.b);
        case K_PLAN1:
            return mc::fmt("plan(t%d)", p.t);
        case K_UNPLAN:
            return mc::fmt("t%d.unplan()", p.t);
        case K_EXEC:
            return mc::fmt("exec(now+=%d)", p.a);
        case K_DELETE:
            return mc::fmt("delete t%d", p.t);
        default:
            return mc::fmt("recreate t%d script=%s", p.t, script_name[p.a]);
        }
    }

    // ---------------- reference operations (set semantics + informational FIFO order)
    void ref_unplan(int t)
    {
        ref[t].planned = false;
        fifo.remove(t);
    }
    void ref_plan(int t)
    {
        fifo.remove(t);
        int pos = 0;
        while (pos < fifo.n && ref[fifo.v[pos]].deadline() <= ref[t].deadline())
            pos++;
        if (pos > 0 && ref[fifo.v[pos - 1]].deadline() == ref[t].deadline())
            tie_seen = true;
        fifo.insert(pos, t);
        ref[t].planned = true;
    }
    void ref_plan3(int t, int64_t start, int64_t interval)
    {
        ref[t].start = start;
        ref[t].interval = interval;
        ref_plan(t);
    }
    // apply the script of timer `id` to the real objects (real=true) or to the reference
    void run_script(int id, bool real)
    {
        int o1 = (id + 1) % N, o2 = (id + 2) % N;
        switch (ref[id].script)
        {
        case S_NOP:
            break;
        case S_UNPLAN_SELF:
            if (real)
                tim[id]->unplan();
            else
                ref_unplan(id);
            break;
        case S_UNPLAN_O1:
        case S_UNPLAN_O2:
        {
            int o = ref[id].script == S_UNPLAN_O1 ? o1 : o2;
            if (!ref[o].alive)
                break;
            if (real)
                tim[o]->unplan();
            else
                ref_unplan(o);
            break;
        }
        case S_REPLAN_SELF:
            if (real)
                mgr->plan(*tim[id], now, 1);
            else
                ref_plan3(id, now, 1);
            break;
        case S_PLAN_O1_DUE:
            if (!ref[o1].alive)
                break;
            if (real)
                mgr->plan(*tim[o1], now - 2, 2);
            else
                ref_plan3(o1, now - 2, 2);
            break;
        case S_PLAN_O1_FUT:
            if (!ref[o1].alive)
                break;
            if (real)
                mgr->plan(*tim[o1], now + 1, 3);
            else
                ref_plan3(o1, now + 1, 3);
            break;
        case S_REPLAN_O1:
            if (!ref[o1].alive || ref[o1].interval <= 0)
                break; // precondition: intervals > 0
            if (real)
                mgr->plan(*tim[o1]);
            else
                ref_plan(o1);
            break;
        case S_PLAN_O2_DUE:
            if (!ref[o2].alive)
                break;
            if (real)
                mgr->plan(*tim[o2], now - 1, 1);
            else
                ref_plan3(o2, now - 1, 1);
            break;
        }
    }
    // reference step for one firing: the script's effect, then the re-arm rule of the statement
    void ref_fire(int id)
    {
        if (ref[id].script != S_NOP)
            script_ran = true;
        run_script(id, false);
        if (ref[id].planned)
        {
            ref[id].start += ref[id].interval; // re-arm at previous deadline + interval
            ref_plan(id);
        }
    }
    // would a plain FIFO-EDF scheduler terminate on this exec?  (callbacks that keep
    // re-arming each other as already due live-lock every scheduler: outside the property)
    bool exec_terminates(int64_t t)
    {
        RefTimer sref[MAXN];
        std::copy(ref, ref + MAXN, sref);
        Fifo sfifo = fifo;
        int64_t snow = now;
        bool s1 = script_ran, s2 = tie_seen;
        now = t;
        int fuel = FUEL;
        while (fifo.n && ref[fifo.v[0]].deadline() <= now && fuel > 0)
        {
            ref_fire(fifo.v[0]);
            fuel--;
        }
        std::copy(sref, sref + MAXN, ref);
        fifo = sfifo;
        now = snow;
        script_ran = s1;
        tie_seen = s2;
        return fuel > 0;
    }

    // ---------------- the real callback
    void on_callback(int id) override
    {
        log.push_back(id);
        if ((int)log.size() > FUEL + 10)
        {
            mc::violation("C16.exec.runaway", "more than %d callbacks in one exec(now=%lld)", FUEL, (long long)now);
            throw Runaway(); // unwinds through timer_manager::exec
        }
        if (!in_exec || id < 0 || id >= N || !ref[id].alive)
        {
            mc::violation("C16.exec.fired_dead_timer", "callback of t%d outside exec or for a deleted timer", id);
            return;
        }
        RefTimer &r = ref[id];
        if (!r.planned)
        {
            mc::violation("C16.exec.fired_unplanned", "t%d fired at now=%lld but it is not planned (reference)", id, (long long)now);
            r.planned = true; // keep going from the implementation's view
            fifo.insert(0, id);
        }
        else
        {
            if (now < r.deadline())
                mc::violation("C16.exec.fired_before_deadline", "t%d fired at now=%lld, deadline start+interval=%lld+%lld", id,
                              (long long)now, (long long)r.start, (long long)r.interval);
            for (int j = 0; j < N; j++)
                if (j != id && ref[j].alive && ref[j].planned && ref[j].deadline() < r.deadline())
                    mc::violation("C16.exec.not_deadline_order",
                                  "t%d (deadline %lld) fired while t%d with earlier deadline %lld was pending, now=%lld", id,
                                  (long long)r.deadline(), j, (long long)ref[j].deadline(), (long long)now);
            // the real object must agree about its own deadline at this moment (public API)
            if (tim[id]->finish() != r.deadline())
                mc::violation("C16.exec.deadline_drift", "t%d fired with finish()=%lld, reference deadline %lld", id,
                              (long long)tim[id]->finish(), (long long)r.deadline());
            if (fifo.n && fifo.v[0] != id)
                fifo_differs = true;
        }
        ref_fire(id);
        run_script(id, true);
    }

    // ---------------- operations
    bool apply(int o) override
    {
        Op p = ops[o];
        g_model = this;
        script_ran = tie_seen = fifo_differs = false;
        const char *sigk = "";
        switch (p.kind)
        {
        case K_PLAN3:
            if (!ref[p.t].alive)
                return false;
            mc::crash_context("C16.plan.crash");
            if (ref[p.t].planned)
                mc::nontrivial(); // re-planning a pending timer
            mgr->plan(*tim[p.t], now + p.a, p.b);
            ref_plan3(p.t, now + p.a, p.b);
            sigk = "plan";
            break;
        case K_PLAN1:
            if (!ref[p.t].alive || ref[p.t].interval <= 0)
                return false; // precondition: intervals > 0 (a fresh timer has interval 0)
            mc::crash_context("C16.plan.crash");
            mgr->plan(*tim[p.t]);
            ref_plan(p.t);
            sigk = "plan";
            break;
        case K_UNPLAN:
            if (!ref[p.t].alive)
                return false;
            mc::crash_context("C16.unplan.crash");
            tim[p.t]->unplan();
            ref_unplan(p.t);
            sigk = "unplan";
            break;
        case K_DELETE:
            if (!ref[p.t].alive)
                return false;
            mc::crash_context("C16.delete.crash");
            if (ref[p.t].planned)
                mc::nontrivial(); // destroying a pending timer
            destroy(p.t);
            ref_unplan(p.t);
            ref[p.t] = RefTimer();
            sigk = "delete";
            break;
        case K_RECREATE:
            if (ref[p.t].alive && ref[p.t].script == p.a && !ref[p.t].planned && ref[p.t].interval == 0)
                return false; // would not change anything
            mc::crash_context("C16.delete.crash");
            if (ref[p.t].alive)
            {
                if (ref[p.t].planned)
                    mc::nontrivial();
                destroy(p.t);
                ref_unplan(p.t);
            }
            create(p.t, p.a);
            sigk = "delete";
            break;
        case K_EXEC:
        {
            if (horizon >= 0 && now + p.a > base + horizon)
                return false;
            if (!exec_terminates(now + p.a))
                return false;
            now += p.a;
            log.clear();
            in_exec = true;
            mc::crash_context("C16.exec.crash");
            try
            {
                mgr->exec(now);
            }
            catch (Runaway &)
            {
                in_exec = false;
                g_lock_depth = 0;
                return true;
            }
            in_exec = false;
            sigk = "exec";
            // every planned timer whose deadline has passed ran during this exec
            for (int t = 0; t < N; t++)
                if (ref[t].alive && ref[t].planned && ref[t].deadline() <= now)
                    mc::violation("C16.exec.due_timer_not_fired", "after exec(now=%lld) t%d is still pending with deadline %lld+%lld",
                                  (long long)now, t, (long long)ref[t].start, (long long)ref[t].interval);
            string s;
            int cnt[MAXN] = {0, 0, 0, 0};
            for (int e : log)
            {
                s += (char)('0' + e);
                cnt[e]++;
            }
            // coarse outcome: the first six firings + how many there were (the table of distinct outcomes is finite)
            mc::outcome(s.substr(0, 6) + mc::fmt("/%zu", s.size() < 9 ? s.size() : (size_t)9));
            bool catchup = false;
            for (int c : cnt)
                if (c >= 2)
                    catchup = true;
            if (log.size() >= 2 || script_ran || catchup)
                mc::nontrivial();
            if (catchup)
                mc::count("exec_with_catch_up");
            if (script_ran)
                mc::count("exec_with_script_effect");
            if (fifo_differs)
                mc::count("tie_order_differs_from_fifo");
            break;
        }
        }
        if (tie_seen)
        {
            mc::nontrivial();
            mc::count("insert_among_equal_deadlines");
        }
        mc::crash_context("C16.observe.crash");
        check(sigk);
        return true;
    }

#ifndef C16_PUBLIC_ONLY
    // real list order, by a bounded walk over the manager's private list (key + pending-set oracle).
    // The only code that depends on private NAMES (timer_list, lnk, _start, _interval) is inside
    // #ifndef C16_PUBLIC_ONLY; build.sh falls back to -DC16_PUBLIC_ONLY when this does not compile.
    bool impl_order(int *out, int &n)
    {
        igris::dlist_node *head = &mgr->timer_list.list;
        n = 0;
        for (igris::dlist_node *x = head->next; x != head; x = x->next)
        {
            if (n >= N)
                return false;
            int id = -1;
            for (int t = 0; t < N; t++)
                if (tim[t] && x == &tim[t]->lnk)
                    id = t;
            if (id < 0)
                return false;
            out[n++] = id;
        }
        return true;
    }
#else
    // public API only: the manager cannot be iterated, so the order is the reference's (deadline, then
    // order of planning); "false" once an oracle has failed in this universe (teardown guard)
    bool impl_order(int *out, int &n)
    {
        n = fifo.n;
        for (int i = 0; i < n; i++)
            out[i] = fifo.v[i];
        return !suspect;
    }
#endif
    bool suspect = false; // an oracle failed in this universe: do not tear the real objects down

    void check(const char *sigk)
    {
        if (g_lock_depth != 0)
        { // the library returned with the system lock still held (or released once too often)
            mc::violation("C16.system_lock.not_balanced", "system lock depth %d after %s", g_lock_depth, sigk);
            g_lock_depth = 0;
        }
        int npend = 0;
        int64_t mind = 0;
#ifndef C16_PUBLIC_ONLY
        {
            // the manager's list holds exactly the live timers that are pending in the reference
            int ord[MAXN], n = 0, want = 0;
            bool ok = impl_order(ord, n);
            for (int t = 0; t < N; t++)
                want += ref[t].alive && ref[t].planned;
            for (int i = 0; ok && i < n; i++)
                if (!ref[ord[i]].planned)
                    ok = false;
            if (!ok || n != want)
            {
                mc::violation(mc::fmt("C16.%s.pending_list", sigk), "manager list %s; reference has %d pending (now=%lld)",
                              ok ? "has a different number of timers" : "reaches a destroyed or unplanned timer, or does not close", want,
                              (long long)now);
                suspect = true;
                return;
            }
        }
#endif
        for (int t = 0; t < N; t++)
        {
            if (!ref[t].alive)
                continue;
            bool pl = tim[t]->is_planned();
            if (pl != ref[t].planned)
                mc::violation(mc::fmt("C16.%s.pending_set", sigk), "t%d is_planned()=%d, reference %d (now=%lld)", t, pl, ref[t].planned,
                              (long long)now);
            if (ref[t].planned)
            {
                if (tim[t]->finish() != ref[t].deadline())
                    mc::violation(mc::fmt("C16.%s.deadline", sigk), "t%d finish()=%lld, reference deadline %lld+%lld (now=%lld)", t,
                                  (long long)tim[t]->finish(), (long long)ref[t].start, (long long)ref[t].interval, (long long)now);
                // due / not-due rule through the public predicate
                for (int64_t q : {ref[t].deadline() - 1, ref[t].deadline(), now})
                    if (tim[t]->check(q) != (q >= ref[t].deadline()))
                        mc::violation(mc::fmt("C16.%s.check_predicate", sigk), "t%d check(%lld)=%d with deadline %lld", t, (long long)q,
                                      tim[t]->check(q), (long long)ref[t].deadline());
                if (!npend || ref[t].deadline() < mind)
                    mind = ref[t].deadline();
                npend++;
            }
        }
        if (mgr->empty() != (npend == 0))
            mc::violation(mc::fmt("C16.%s.empty", sigk), "empty()=%d with %d pending timers in the reference", mgr->empty(), npend);
        else if (npend)
        {
            int64_t mi = (int64_t)mgr->minimal_interval(now);
            if ((TT)mi != (TT)(mind - now)) // an unsigned difference type wraps for an overdue head: compare in the time type
                mc::violation(mc::fmt("C16.%s.minimal_interval", sigk), "minimal_interval(%lld)=%lld, reference next deadline %lld",
                              (long long)now, (long long)mi, (long long)mind);
        }
        if (mc::case_has_violation())
            suspect = true;
    }

    // Canonical key, printable, 6 bits per character:
    //   now | per timer: alive, script, planned?, interval, start (the real object's private fields)
    //       | the manager's real list order | the reference's (planned, start, interval) wherever it differs
    // With -DC16_PUBLIC_ONLY (private names not available): reference state (+) every public observer.
    static void put(string &k, long v, int chars)
    {
        if (v < 0 || v >= (1L << (6 * chars)))
            mc::harness_error("key field %ld does not fit %d characters", v, chars);
        for (int i = chars - 1; i >= 0; i--)
            k += (char)('0' + ((v >> (6 * i)) & 63));
    }
    string key() override
    {
        string k;
        k.reserve(24);
        put(k, now - base, 2);
        string diff;
        for (int t = 0; t < N; t++)
        {
            if (!ref[t].alive)
            {
                k += "---";
                continue;
            }
            bool pl = tim[t]->is_planned();
#ifndef C16_PUBLIC_ONLY
            int64_t st = tim[t]->_start, iv = tim[t]->_interval;
#else
            // public observers only: is_planned() and finish(); start/interval are the reference's, which
            // determine the real ones on every state that passed the oracles (conforming implementation)
            int64_t st = ref[t].start, iv = ref[t].interval;
            if (tim[t]->finish() != st + iv)
                diff += mc::fmt("F%d:%lld", t, (long long)tim[t]->finish());
#endif
            put(k, ref[t].script * 2 + pl, 1);
            // interval 0..3, start relative to the time base -254..767; a never-planned timer (start 0) -> -255
            put(k, iv * 1024 + ((base != 0 && st == 0 ? -255 : st - base) + 256), 2);
            if (pl != ref[t].planned || st != ref[t].start || iv != ref[t].interval)
                diff += mc::fmt("R%d:%d,%lld,%lld", t, (int)ref[t].planned, (long long)ref[t].start, (long long)ref[t].interval);
        }
        int ord[MAXN], n = 0;
        k += impl_order(ord, n) ? "|" : "!";
        for (int i = 0; i < n; i++)
            k += (char)('0' + ord[i]);
#ifdef C16_PUBLIC_ONLY
        if (mgr->empty() != (fifo.n == 0))
            diff += "E";
#endif
        return k + diff;
    }
};

static void timer_callback(int id)
{
    if (g_model)
        g_model->on_callback(id);
}
typedef TimerModelT<igris::timer_spec<int64_t>> TimerModel;

// ================================================================ two managers sharing the timers (bfs)
// A timer belongs to the manager that planned it LAST: it fires only from that manager's exec, and both
// managers' empty()/minimal_interval() follow.  is_planned() only says "linked somewhere", so handing a
// pending timer from one manager to the other is the interesting transition.
struct TwoManagers;
static TwoManagers *g_two = nullptr;
static void two_callback(int id);

struct TwoManagers : mc::Model
{
    static const int NT = 2, NM = 2;
    struct TOp
    {
        int kind, m, t, a, b;
    };
    enum
    {
        T_PLAN3,
        T_PLAN1,
        T_UNPLAN,
        T_EXEC,
        T_SCRIPT
    };
    static const vector<TOp> &table()
    {
        static vector<TOp> ops;
        if (ops.empty())
        {
            for (int m = 0; m < NM; m++)
                for (int d : {0, 1, 2, 7})
                    ops.push_back({T_EXEC, m, 0, d, 0});
            for (int m = 0; m < NM; m++)
                for (int t = 0; t < NT; t++)
                    for (int off : {-2, 0, 1})
                        for (int i = 1; i <= 3; i++)
                            ops.push_back({T_PLAN3, m, t, off, i});
            for (int m = 0; m < NM; m++)
                for (int t = 0; t < NT; t++)
                    ops.push_back({T_PLAN1, m, t, 0, 0});
            for (int t = 0; t < NT; t++)
                ops.push_back({T_UNPLAN, 0, t, 0, 0});
            for (int t = 0; t < NT; t++)
                for (int sc = 0; sc < 3; sc++)
                    ops.push_back({T_SCRIPT, 0, t, sc, 0});
        }
        return ops;
    }
    struct RT
    {
        int owner = -1; // manager that planned it last, -1: not planned
        int64_t start = 0, interval = 0;
        int script = 0; // 0 nothing, 1 unplan self, 2 run the OTHER manager's exec(now) from inside this callback
        int64_t deadline() const { return start + interval; }
    };
    igris::timer_manager *mgr[NM];
    Timer *tim[NT];
    RT ref[NT];
    Fifo fifo[NM]; // reference order per manager (deadline, then order of planning)
    int64_t now = 0;
    int cur = -1; // manager whose exec is running
    int depth = 0; // nesting of exec calls (a callback of A may run B.exec; never the same manager again)
    bool nested_ran = false;
    int fired = 0;
    bool suspect = false;
    const vector<TOp> &ops;

    TwoManagers() : ops(table())
    {
        for (int m = 0; m < NM; m++)
            mgr[m] = new igris::timer_manager;
        for (int t = 0; t < NT; t++)
            tim[t] = new Timer(igris::make_delegate(two_callback), (int)t);
        g_two = this;
    }
    ~TwoManagers()
    {
        if (g_two == this)
            g_two = nullptr;
        if (suspect)
            return; // an oracle failed: queues may be inconsistent, leak
        for (int t = 0; t < NT; t++)
            tim[t]->unplan();
        for (int t = 0; t < NT; t++)
            delete tim[t];
        for (int m = 0; m < NM; m++)
            delete mgr[m];
    }
    int nops() override { return (int)ops.size(); }
    string opname(int o) override
    {
        const TOp &p = ops[o];
        char M = (char)('A' + p.m);
        switch (p.kind)
        {
        case T_PLAN3:
            return mc::fmt("%c.plan(t%d,now%+d,%d)", M, p.t, p.a, p.b);
        case T_PLAN1:
            return mc::fmt("%c.plan(t%d)", M, p.t);
        case T_UNPLAN:
            return mc::fmt("t%d.unplan()", p.t);
        case T_EXEC:
            return mc::fmt("%c.exec(now+=%d)", M, p.a);
        default:
            return mc::fmt("t%d script=%s", p.t, p.a == 0 ? "nop" : (p.a == 1 ? "unplan_self" : "exec_other_manager"));
        }
    }
    void ref_unplan(int t)
    {
        if (ref[t].owner >= 0)
            fifo[ref[t].owner].remove(t);
        ref[t].owner = -1;
    }
    void ref_plan(int m, int t)
    {
        ref_unplan(t);
        Fifo &f = fifo[m];
        int pos = 0;
        while (pos < f.n && ref[f.v[pos]].deadline() <= ref[t].deadline())
            pos++;
        f.insert(pos, t);
        ref[t].owner = m;
    }
    void on_callback(int id)
    {
        fired++;
        if (fired > FUEL)
        {
            mc::violation("C16.two_managers.exec.runaway", "more than %d callbacks in one exec(now=%lld)", FUEL, (long long)now);
            throw Runaway();
        }
        RT &r = ref[id];
        char M = (char)('A' + cur);
        if (cur < 0)
            mc::violation("C16.two_managers.exec.fired_outside_exec", "t%d fired outside exec", id);
        else if (r.owner != cur)
        {
            mc::violation(r.owner < 0 ? "C16.two_managers.exec.fired_unplanned" : "C16.two_managers.exec.fired_from_other_manager",
                          "t%d fired from %c.exec(now=%lld) but it was last planned on %s", id, M, (long long)now,
                          r.owner < 0 ? "no manager" : (r.owner ? "B" : "A"));
            ref_plan(cur, id); // keep going from the implementation's view
        }
        else
        {
            if (now < r.deadline())
                mc::violation("C16.two_managers.exec.fired_before_deadline", "t%d fired from %c.exec(now=%lld), deadline %lld+%lld", id, M, (long long)now,
                              (long long)r.start, (long long)r.interval);
            for (int j = 0; j < NT; j++)
                if (j != id && ref[j].owner == cur && ref[j].deadline() < r.deadline())
                    mc::violation("C16.two_managers.exec.not_deadline_order", "t%d (deadline %lld) fired from %c.exec while t%d (deadline %lld) was pending there",
                                  id, (long long)r.deadline(), M, j, (long long)ref[j].deadline());
        }
        // script, then the re-arm rule (on the manager that is executing)
        if (r.script == 2 && depth == 1 && cur >= 0)
        {
            // two managers alive at once: the other one's exec runs to completion inside this callback
            int outer = cur, other = 1 - cur;
            cur = other;
            depth++;
            nested_ran = true;
            mgr[other]->exec(now);
            depth--;
            cur = outer;
            for (int t = 0; t < NT; t++)
                if (ref[t].owner == other && ref[t].deadline() <= now)
                    mc::violation("C16.two_managers.nested_exec.due_timer_not_fired",
                                  "%c.exec(now=%lld) called from a callback of %c returned with t%d still pending on %c, deadline %lld+%lld", 'A' + other,
                                  (long long)now, 'A' + outer, t, 'A' + other, (long long)ref[t].start, (long long)ref[t].interval);
        }
        if (r.script == 1)
        {
            ref_unplan(id);
            tim[id]->unplan();
        }
        else
        {
            r.start += r.interval;
            ref_plan(cur, id);
        }
    }
    bool apply(int o) override
    {
        TOp p = ops[o];
        g_two = this;
        const char *nm = "";
        switch (p.kind)
        {
        case T_PLAN3:
            mc::crash_context("C16.two_managers.plan.crash");
            if (ref[p.t].owner >= 0 && ref[p.t].owner != p.m)
            {
                mc::nontrivial(); // a pending timer changes its manager
                if (ref[p.t].start == now + p.a && ref[p.t].interval == p.b)
                    mc::count("handover_with_unchanged_parameters");
            }
            mgr[p.m]->plan(*tim[p.t], now + p.a, p.b);
            ref[p.t].start = now + p.a;
            ref[p.t].interval = p.b;
            ref_plan(p.m, p.t);
            nm = "plan";
            break;
        case T_PLAN1:
            if (ref[p.t].interval <= 0)
                return false; // precondition: intervals > 0
            mc::crash_context("C16.two_managers.plan.crash");
            if (ref[p.t].owner >= 0 && ref[p.t].owner != p.m)
                mc::nontrivial();
            mgr[p.m]->plan(*tim[p.t]);
            ref_plan(p.m, p.t);
            nm = "plan";
            break;
        case T_UNPLAN:
            mc::crash_context("C16.two_managers.unplan.crash");
            tim[p.t]->unplan();
            ref_unplan(p.t);
            nm = "unplan";
            break;
        case T_SCRIPT:
            if (ref[p.t].script == p.a)
                return false;
            ref[p.t].script = p.a;
            nm = "script";
            break;
        case T_EXEC:
            now += p.a;
            cur = p.m;
            depth = 1;
            nested_ran = false;
            fired = 0;
            mc::crash_context("C16.two_managers.exec.crash");
            try
            {
                mgr[p.m]->exec(now);
            }
            catch (Runaway &)
            {
                cur = -1;
                depth = 0;
                g_lock_depth = 0;
                suspect = true;
                return true;
            }
            cur = -1;
            depth = 0;
            if (nested_ran)
            {
                mc::nontrivial();
                mc::count("exec_nested_in_callback_of_other_manager");
            }
            for (int t = 0; t < NT; t++)
                if (ref[t].owner == p.m && ref[t].deadline() <= now)
                    mc::violation("C16.two_managers.exec.due_timer_not_fired", "after %c.exec(now=%lld) t%d, last planned on %c, is still pending with deadline %lld+%lld",
                                  'A' + p.m, (long long)now, t, 'A' + p.m, (long long)ref[t].start, (long long)ref[t].interval);
            if (fired >= 2)
                mc::nontrivial();
            mc::outcome(mc::fmt("%c%d", 'A' + p.m, fired < 9 ? fired : 9));
            nm = "exec";
            break;
        }
        mc::crash_context("C16.two_managers.observe.crash");
        check(nm);
        if (mc::case_has_violation())
            suspect = true;
        return true;
    }
    void check(const char *nm)
    {
        if (g_lock_depth != 0)
        {
            mc::violation("C16.system_lock.not_balanced", "system lock depth %d after %s", g_lock_depth, nm);
            g_lock_depth = 0;
        }
        for (int t = 0; t < NT; t++)
        {
            bool pl = tim[t]->is_planned();
            if (pl != (ref[t].owner >= 0))
                mc::violation(mc::fmt("C16.two_managers.%s.pending_set", nm), "t%d is_planned()=%d, reference owner %d (now=%lld)", t, pl, ref[t].owner, (long long)now);
            if (ref[t].owner >= 0 && tim[t]->finish() != ref[t].deadline())
                mc::violation(mc::fmt("C16.two_managers.%s.deadline", nm), "t%d finish()=%lld, reference %lld+%lld", t, (long long)tim[t]->finish(),
                              (long long)ref[t].start, (long long)ref[t].interval);
        }
        for (int m = 0; m < NM; m++)
        {
            int np = 0;
            int64_t mind = 0;
            for (int t = 0; t < NT; t++)
                if (ref[t].owner == m)
                {
                    if (!np || ref[t].deadline() < mind)
                        mind = ref[t].deadline();
                    np++;
                }
            if (mgr[m]->empty() != (np == 0))
            {
                mc::violation(mc::fmt("C16.two_managers.%s.empty", nm), "%c.empty()=%d but %d timers were last planned on %c (now=%lld)", 'A' + m, mgr[m]->empty(), np,
                              'A' + m, (long long)now);
                continue;
            }
            if (np)
            {
                int64_t mi = mgr[m]->minimal_interval(now);
                if (mi != mind - now)
                    mc::violation(mc::fmt("C16.two_managers.%s.minimal_interval", nm), "%c.minimal_interval(%lld)=%lld, reference next deadline %lld", 'A' + m,
                                  (long long)now, (long long)mi, (long long)mind);
            }
        }
    }
    // real queue of manager m as timer ids (private list walk), or the reference order in the public-only build
    string queue(int m)
    {
        string q;
#ifndef C16_PUBLIC_ONLY
        igris::dlist_node *head = &mgr[m]->timer_list.list;
        int steps = 0;
        for (igris::dlist_node *x = head->next; x != head; x = x->next)
        {
            if (++steps > NT)
                return q + "!";
            int id = -1;
            for (int t = 0; t < NT; t++)
                if (x == &tim[t]->lnk)
                    id = t;
            if (id < 0)
                return q + "?";
            q += (char)('0' + id);
        }
#else
        for (int i = 0; i < fifo[m].n; i++)
            q += (char)('0' + fifo[m].v[i]);
        if (mgr[m]->empty() != (fifo[m].n == 0))
            q += "E";
#endif
        return q;
    }
    string key() override
    {
        string k = mc::fmt("%lld", (long long)now);
        for (int t = 0; t < NT; t++)
        {
#ifndef C16_PUBLIC_ONLY
            long long st = tim[t]->_start, iv = tim[t]->_interval;
#else
            long long st = tim[t]->finish() - ref[t].interval, iv = ref[t].interval;
#endif
            k += mc::fmt("|%d,%d,%lld,%lld;%d,%lld,%lld", ref[t].script, (int)tim[t]->is_planned(), st, iv, ref[t].owner, (long long)ref[t].start,
                         (long long)ref[t].interval);
        }
        for (int m = 0; m < NM; m++)
            k += "|" + queue(m) + "/" + string(1, (char)('0' + fifo[m].n));
        return k;
    }
};
static void two_callback(int id)
{
    if (g_two)
        g_two->on_callback(id);
}

// ================================================================ unsigned time counters across the wrap point (tree)
// timer_manager_basic<timer_spec<U>> with U = uint32_t / uint64_t and ONE timer whose start lies just below
// the end of the counter range.  check() compares the modular difference curtime - start with the interval,
// so a single timer must behave exactly as with unbounded time as long as start is not ahead of now and less
// than half the range elapses.  (Several timers are outside this universe: plan() orders by the absolute,
// wrapped deadline and mis-sorts deadlines on different sides of the wrap on the unchanged code; so does any
// start ahead of now, and any unsigned type narrower than int, whose difference is promoted to int.)
template <class U> struct WrapCase
{
    typedef igris::timer_spec<U> Spec;
    static int fired;
    static U now, rstart, rinterval;
    static const char *tag;
    static void cb(int)
    {
        fired++;
        U elapsed = (U)(now - rstart);
        if (elapsed < rinterval)
            mc::violation(mc::fmt("C16.%s.exec.fired_before_deadline", tag), "fired at now=%llx with start=%llx interval=%llx (elapsed %llx)",
                          (unsigned long long)now, (unsigned long long)rstart, (unsigned long long)rinterval, (unsigned long long)elapsed);
        rstart = (U)(rstart + rinterval); // re-arm at deadline + interval (modular)
        if (fired > 5000)
            throw Runaway();
    }
    static void run(U base, U interval, int off, const int *deltas, int nd, int unplan_before)
    {
        igris::timer_manager_basic<Spec> mgr;
        igris::timer_basic<Spec, int> tim(igris::make_delegate(cb), 0);
        now = base;
        rstart = (U)(base - (U)off); // start = now - off: never ahead of now
        rinterval = interval;
        mgr.plan(tim, rstart, interval);
        bool planned = true;
        for (int s = 0; s < nd; s++)
        {
            if (s == unplan_before)
            {
                tim.unplan();
                planned = false;
            }
            now = (U)(now + (U)deltas[s]);
            U elapsed = (U)(now - rstart);
            long want = planned ? (long)(elapsed / rinterval) : 0;
            fired = 0;
            mc::crash_context("C16.%s.exec.crash", tag);
            try
            {
                mgr.exec(now);
            }
            catch (Runaway &)
            {
                mc::violation(mc::fmt("C16.%s.exec.runaway", tag), "more than 5000 callbacks in exec(%llx)", (unsigned long long)now);
                g_lock_depth = 0;
                tim.unplan();
                return;
            }
            if (fired != want)
                mc::violation(mc::fmt("C16.%s.exec.%s", tag, fired < want ? "due_timer_not_fired" : "fired_too_often"),
                              "exec(%llx): %d callbacks, want %ld (plan start=%llx interval=%llx, step %d)", (unsigned long long)now, fired, want,
                              (unsigned long long)(U)(base - (U)off), (unsigned long long)interval, s);
            if (tim.is_planned() != planned || mgr.empty() != !planned)
                mc::violation(mc::fmt("C16.%s.exec.pending_set", tag), "is_planned()=%d empty()=%d, want planned=%d", tim.is_planned(), mgr.empty(), planned);
            if (planned && !mc::case_has_violation())
            {
                U dl = (U)(rstart + rinterval);
                if (tim.finish() != dl)
                    mc::violation(mc::fmt("C16.%s.exec.deadline", tag), "finish()=%llx want %llx", (unsigned long long)tim.finish(), (unsigned long long)dl);
                if (tim.check(now) || tim.check((U)(dl - 1)) || !tim.check(dl) || !tim.check((U)(dl + 7)))
                    mc::violation(mc::fmt("C16.%s.check_predicate", tag), "start=%llx interval=%llx: check(now=%llx)=%d check(deadline-1)=%d check(deadline)=%d check(deadline+7)=%d",
                                  (unsigned long long)rstart, (unsigned long long)rinterval, (unsigned long long)now, tim.check(now), tim.check((U)(dl - 1)), tim.check(dl),
                                  tim.check((U)(dl + 7)));
                if ((U)mgr.minimal_interval(now) != (U)(dl - now))
                    mc::violation(mc::fmt("C16.%s.minimal_interval", tag), "minimal_interval(%llx)=%llx want %llx", (unsigned long long)now,
                                  (unsigned long long)(U)mgr.minimal_interval(now), (unsigned long long)(U)(dl - now));
            }
            mc::outcome(mc::fmt("%s%ld", tag, want < 9 ? want : 9));
        }
        tim.unplan();
    }
};
template <class U> int WrapCase<U>::fired;
template <class U> U WrapCase<U>::now;
template <class U> U WrapCase<U>::rstart;
template <class U> U WrapCase<U>::rinterval;
template <> const char *WrapCase<uint32_t>::tag = "wrap_u32";
template <> const char *WrapCase<uint64_t>::tag = "wrap_u64";

static void wrap_checks()
{
    static const long long bases[] = {-0x100, -2, -1, 0, 1, -0x201}; // relative to 2^W: 0xFFFFFF00, ...FE, ...FF, 0, 1, 0xFFFFFDFF
    static const int intervals[] = {1, 2, 3, 0x100, 0x200};
    static const int deltas[] = {0, 1, 2, 7, 0xFF, 0x100, 0x1FF, 0x200, 0x201};
    int c = mc::choose(2 * 6 * 5 * 2);
    int w64 = c / 60, bi = c / 10 % 6, ii = c / 2 % 5, off = (c % 2) * 2;
    int d[3];
    d[0] = deltas[mc::choose(9)];
    d[1] = deltas[mc::choose(9)];
    int last = mc::choose(9 * 2);
    d[2] = deltas[last % 9];
    int unplan_before = last / 9 ? 2 : -1;
    mc::describe("uint%d time: base 2^%d%+lld, plan(start=base-%d, interval=0x%x), exec at +0x%x +0x%x %s+0x%x", w64 ? 64 : 32, w64 ? 64 : 32, bases[bi], off,
                 intervals[ii], d[0], d[1], unplan_before >= 0 ? "unplan " : "", d[2]);
    if (w64)
        WrapCase<uint64_t>::run((uint64_t)bases[bi], (uint64_t)intervals[ii], off, d, 3, unplan_before);
    else
        WrapCase<uint32_t>::run((uint32_t)bases[bi], (uint32_t)intervals[ii], off, d, 3, unplan_before);
    if (bases[bi] < 0)
        mc::nontrivial(); // the counter passes its end during the case or the deadline lies beyond it
}

// ================================================================ stimer (tree)
// one (start, interval, now) triple through every stimer entry point
static void stimer_case(long start, long interval, long now)
{
    bool due = now >= start + interval;
    struct stimer_head t;
    memset(&t, 0x5A, sizeof t);
    // initialised but not planned: never due
    stimer_init(&t, start, interval);
    if (stimer_check(&t, now))
        mc::violation("C16.stimer.unplanned_due", "stimer_init(%ld,%ld) then check(%ld) != 0", start, interval, now);
    stimer_plan(&t, start, interval);
    int c = stimer_check(&t, now) != 0;
    if (c != due)
        mc::violation(due ? "C16.stimer.due_not_reported" : "C16.stimer.early", "plan(%ld,%ld) check(%ld)=%d", start, interval, now, c);
    if ((long)stimer_finish(&t) != start + interval)
        mc::violation("C16.stimer.finish", "plan(%ld,%ld) finish=%ld", start, interval, (long)stimer_finish(&t));
    // boundary of the same timer: one tick before the deadline and at the deadline
    if (stimer_check(&t, start + interval - 1) || !stimer_check(&t, start + interval))
        mc::violation("C16.stimer.boundary", "plan(%ld,%ld): check(deadline-1)=%d check(deadline)=%d", start, interval,
                      stimer_check(&t, start + interval - 1), stimer_check(&t, start + interval));
    // periodic use at a fixed time: one firing per elapsed period, re-armed at deadline + interval
    long want = due ? (now - start) / interval : 0;
    long fired = 0;
    for (int guard = 0; guard < 64; guard++)
    {
        bool f = false;
        STIMER_PERIODIC(&t, now) { f = true; }
        if (!f)
            break;
        fired++;
    }
    if (fired != want)
        mc::violation("C16.stimer.catch_up", "plan(%ld,%ld) polled at now=%ld fired %ld times, want %ld", start, interval, now, fired, want);
    if ((long)stimer_finish(&t) != start + (want + 1) * interval)
        mc::violation("C16.stimer.rearm_drift", "plan(%ld,%ld) after %ld firings finish=%ld want %ld", start, interval, want,
                      (long)stimer_finish(&t), start + (want + 1) * interval);
    // stimer_start: new start, same interval, planned
    struct stimer_head u;
    memset(&u, 0x5A, sizeof u);
    stimer_init(&u, 100, interval);
    stimer_start(&u, start);
    if ((stimer_check(&u, now) != 0) != due)
        mc::violation("C16.stimer.start", "init(100,%ld) start(%ld) check(%ld)=%d", interval, start, now, stimer_check(&u, now));
    mc::outcome(mc::fmt("%d/%ld", c, fired));
    if (due && want >= 2)
        mc::nontrivial();
}

static void stimer_checks()
{
    // first choice = (start, interval): 16*16 = 256 shards; now is the inner loop
    int si = mc::choose(16 * 16);
    long start = si / 16 - 3, interval = si % 16 - 3;
    mc::describe("stimer start=%ld interval=%ld now=-3..12", start, interval);
    if (interval <= 0)
    {
        mc::count("excluded_interval_not_positive", 16);
        mc::more_cases(15);
        return; // precondition of the statement
    }
    mc::crash_context("C16.stimer.crash");
    for (long now = -3; now <= 12; now++)
        stimer_case(start, interval, now);
    mc::more_cases(15, 0);
}

// the same cube with operands around the width boundaries of the API type `long`: the clock of a running
// system passes 2^31 ms after 24.8 days; start, now and interval each take values beyond 2^31 and 2^32
static void stimer_large_checks()
{
    static const long P31 = 1L << 31, P32 = 1L << 32;
    static const struct
    {
        const char *name;
        long tbase, ibase; // start = tbase + s, interval = ibase + i, now = start0 + ibase + n
    } fam[] = {{"clock around 2^31", P31 - 6, 0},      {"clock around 2^32", P32 - 6, 0},      {"clock near LONG_MAX", LONG_MAX - 200, 0},
               {"clock around -2^31", -P31 - 6, 0},    {"interval around 2^31", 0, P31 - 6},   {"interval around 2^32", 0, P32 - 6},
               {"clock and interval around 2^31", P31 - 6, P31 - 6}};
    int c = mc::choose(16 * 16 * 7);
    int f = c / 256, si = c % 256;
    long s = si / 16 - 3, i = si % 16 - 3;
    long start = fam[f].tbase + s, interval = fam[f].ibase + i;
    mc::describe("stimer, %s: start=%ld interval=%ld now=start0+ibase-3..+12", fam[f].name, start, interval);
    if (interval <= 0)
    {
        mc::count("excluded_interval_not_positive", 16);
        mc::more_cases(15);
        return;
    }
    mc::crash_context("C16.stimer.crash");
    for (long n = -3; n <= 12; n++)
        stimer_case(start, interval, fam[f].tbase + fam[f].ibase + n);
    mc::more_cases(15, 15);
    mc::nontrivial();
}

// ================================================================ stimer (bfs over op histories, fix-point)
// One stimer_head driven through every public entry point; reference = (planned?, start, interval):
// check(q) is true iff planned and q - start >= interval; swift advances start by interval and changes
// nothing else; init disarms, plan/start arm.  After EVERY operation every public observer is compared:
// the three public fields, stimer_finish and stimer_check at several times.  The universe is finite
// (now <= horizon, swift only while the deadline is at most 6 ahead of now), so the search reaches a fix-point.
struct StimerModel : mc::Model
{
    struct SOp
    {
        int kind, a, b;
    };
    enum
    {
        S_INIT,
        S_PLAN,
        S_START,
        S_SWIFT,
        S_PERIODIC,
        S_DISARM,
        S_ADVANCE
    };
    static const vector<SOp> &table()
    {
        static vector<SOp> ops;
        if (ops.empty())
        {
            for (int d : {0, 1, 2, 7})
                ops.push_back({S_ADVANCE, d, 0});
            ops.push_back({S_SWIFT, 0, 0});
            ops.push_back({S_PERIODIC, 0, 0});
            ops.push_back({S_DISARM, 0, 0});
            for (int off : {-2, 0, 1})
                ops.push_back({S_START, off, 0});
            for (int k : {S_INIT, S_PLAN})
                for (int off : {-2, 0, 1})
                    for (int i = 1; i <= 3; i++)
                        ops.push_back({k, off, i});
        }
        return ops;
    }
    struct stimer_head *t;
    long now = 0, horizon;
    bool planned = false;
    long start = 0, interval = 1;
    const vector<SOp> &ops;
    long base;
    explicit StimerModel(long base_ = 0, long horizon_ = 0) : horizon(horizon_ ? horizon_ : (mc::thorough() ? 30 : 16)), base(base_), ops(table())
    {
        t = (struct stimer_head *)malloc(sizeof *t);
        memset(t, 0x5A, sizeof *t);
        now = start = base;
        stimer_init(t, base, 1); // initialised, not planned
    }
    ~StimerModel() { free(t); }
    int nops() override { return (int)ops.size(); }
    string opname(int o) override
    {
        const SOp &p = ops[o];
        switch (p.kind)
        {
        case S_INIT:
            return mc::fmt("stimer_init(now%+d,%d)", p.a, p.b);
        case S_PLAN:
            return mc::fmt("stimer_plan(now%+d,%d)", p.a, p.b);
        case S_START:
            return mc::fmt("stimer_start(now%+d)", p.a);
        case S_SWIFT:
            return "stimer_swift()";
        case S_PERIODIC:
            return "STIMER_PERIODIC(now)";
        case S_DISARM:
            return "stimer_init(same start,same interval)";
        default:
            return mc::fmt("now+=%d", p.a);
        }
    }
    bool ref_check(long q) const { return planned && q - start >= interval; }
    bool apply(int o) override
    {
        SOp p = ops[o];
        const char *nm = "";
        mc::crash_context("C16.stimer.crash");
        switch (p.kind)
        {
        case S_ADVANCE:
            if (now + p.a > base + horizon)
                return false;
            now += p.a;
            nm = "advance";
            break;
        case S_INIT:
            stimer_init(t, now + p.a, p.b);
            planned = false, start = now + p.a, interval = p.b;
            nm = "init";
            break;
        case S_PLAN:
            stimer_plan(t, now + p.a, p.b);
            planned = true, start = now + p.a, interval = p.b;
            nm = "plan";
            break;
        case S_START:
            stimer_start(t, now + p.a);
            planned = true, start = now + p.a;
            nm = "start";
            break;
        case S_DISARM:
            if (!planned)
                return false;
            stimer_init(t, start, interval);
            planned = false;
            nm = "init";
            break;
        case S_SWIFT:
            if (start + interval > now + 6)
                return false; // keeps the universe finite
            if (!planned)
                mc::nontrivial(); // swifting a timer that is not armed
            stimer_swift(t);
            start += interval;
            nm = "swift";
            break;
        case S_PERIODIC:
        {
            if (start + interval > now + 6)
                return false;
            bool want = ref_check(now), fired = false;
            STIMER_PERIODIC(t, now) { fired = true; }
            if (fired != want)
                mc::violation(want ? "C16.stimer.periodic.due_not_fired" : (planned ? "C16.stimer.periodic.early" : "C16.stimer.periodic.unplanned_fired"),
                              "STIMER_PERIODIC at now=%ld fired=%d, reference planned=%d start=%ld interval=%ld", now, fired, planned, start, interval);
            if (want)
            {
                start += interval;
                if (ref_check(now))
                    mc::nontrivial(); // still due after one firing: catch-up
            }
            nm = "periodic";
            break;
        }
        }
        // every public observer
        const char *cls = planned ? "planned" : "unplanned";
        if ((t->planed != 0) != planned)
            mc::violation(mc::fmt("C16.stimer.%s.planned_flag", nm), "planed=%d, reference %d (now=%ld)", t->planed, planned, now);
        if (t->start != start || t->interval != interval)
            mc::violation(mc::fmt("C16.stimer.%s.fields", nm), "start=%ld interval=%ld, reference %ld %ld (now=%ld)", t->start, t->interval, start, interval, now);
        if ((long)stimer_finish(t) != start + interval)
            mc::violation(mc::fmt("C16.stimer.%s.finish", nm), "finish=%ld, reference %ld+%ld", (long)stimer_finish(t), start, interval);
        struct stimer_head before = *t;
        for (long q : {now, start + interval - 1, start + interval, start + interval + 7, now - 3})
        {
            bool c = stimer_check(t, q) != 0;
            if (c != ref_check(q))
                mc::violation(mc::fmt("C16.stimer.%s.check.%s", nm, cls), "check(%ld)=%d, reference planned=%d start=%ld interval=%ld (now=%ld)", q, c, planned,
                              start, interval, now);
        }
        if (before.start != t->start || before.interval != t->interval || before.planed != t->planed)
            mc::violation("C16.stimer.check.modifies_timer", "stimer_check changed the timer (now=%ld)", now);
        mc::outcome(mc::fmt("%d/%d", (int)planned, (int)ref_check(now)));
        return true;
    }
    string key() override
    {
        // real fields + reference
        return mc::fmt("%ld|%d,%ld,%ld|%d,%ld,%ld", now, t->planed, t->start, t->interval, (int)planned, start, interval);
    }
};

// ================================================================ long histories on ONE object
// The searches above merge states that look equal, so no object ever sees more than a handful of
// operations.  Here ONE deterministic history of >= 140000 (thorough 600000) operations runs on the same
// objects with the full oracle after every operation: timer t0 (interval 1) is planned once and then only
// re-armed by exec - more than 65536 (thorough 262144) consecutive re-arms without a re-plan - next to a
// second timer t1 that is planned, unplanned, re-created and re-planned all the time.
template <class Spec> static void long_history_timers()
{
    typedef TimerModelT<Spec> M;
    (void)mc::choose(1);
    const long steps = mc::thorough() ? 600000 : 140000;
    const bool uns = M::UNS;
    mc::describe("one history of %ld operations on one manager and two timers; t0 is only ever re-armed by exec", steps);
    M m(2, -1, (int)S_UNPLAN_O2, uns ? 1000 : 0);
    const vector<Op> &ops = ops_for(2, (int)S_UNPLAN_O2, uns);
    vector<int> execs, others;
    int plan_t0 = -1;
    for (int i = 0; i < (int)ops.size(); i++)
    {
        const Op &p = ops[i];
        if (p.kind == K_EXEC)
            execs.push_back(i);
        else if (p.t == 1 && (p.kind != K_RECREATE || p.a == S_NOP || p.a == S_UNPLAN_SELF)) // scripts of t1 that leave t0 alone
            others.push_back(i);
        if (p.kind == K_PLAN3 && p.t == 0 && p.a == 0 && p.b == 1)
            plan_t0 = i;
    }
    if (plan_t0 < 0 || execs.size() != 4 || others.size() < 10)
        mc::harness_error("long history: alphabet not as expected");
    m.apply(plan_t0);
    long rearms = 0, done = 1;
    for (long i = 0; i < steps && !mc::case_has_violation(); i++)
    {
        int op = (i & 1) ? others[(size_t)((i / 2) * 7) % others.size()] : execs[(size_t)((i / 2) * 3) % 4]; // strides coprime to the sizes
        int64_t before = m.now;
        if (m.apply(op))
            done++;
        rearms += m.now - before; // interval 1: one re-arm of t0 per tick
        if ((i & 1023) == 0)
            mc::tick();
    }
    if (!mc::case_has_violation() && rearms < (mc::thorough() ? 262144 : 65536 + 1000))
        mc::harness_error("long history: only %ld re-arms", rearms);
    mc::count("consecutive_rearms_of_one_timer", rearms);
    mc::outcome(mc::fmt("%ld", rearms > 65536 ? 1L : 0L));
    mc::more_cases((uint64_t)done - 1, (uint64_t)done - 1);
    mc::nontrivial();
}
// the same for the flag-style timer: one stimer_head walked through its whole alphabet for >= 140000 operations
static void long_history_stimer()
{
    (void)mc::choose(1);
    const long steps = mc::thorough() ? 800000 : 200000;
    mc::describe("one history of %ld operations on one stimer_head", steps);
    StimerModel m(0, 1L << 40);
    int n = m.nops();
    long done = 0;
    for (long i = 0; i < steps && !mc::case_has_violation(); i++)
    {
        if (m.apply((int)((i * 11) % n))) // 11 is coprime to the 28 operations
            done++;
        if ((i & 1023) == 0)
            mc::tick();
    }
    if (!mc::case_has_violation() && (done < steps / 2 || m.now < 70000))
        mc::harness_error("long stimer history: %ld operations done, clock %ld", done, m.now);
    mc::outcome(mc::fmt("%d", (int)(m.now > 65536)));
    mc::more_cases((uint64_t)done - 1, (uint64_t)done - 1);
    mc::nontrivial();
}

#ifndef C16_DEPTH_Q
#define C16_DEPTH_Q 5
#define C16_DEPTH_T 6
#endif
#ifndef C16_HORIZON_Q
#define C16_HORIZON_Q 2
#define C16_HORIZON_T 8
#endif

MC_INIT
{
    mc::BfsOpts o;
    o.max_states = 40000000;
#ifdef C16_ASAN
    o.depth_quick = 4;
    o.depth_thorough = 4;
    // this executable is the variant build: clang++ -O2 -DNDEBUG under ASan (the other one is g++ -O2 with
    // assertions); a representative selection of the sub-checks is repeated here
    mc::add_bfs("timer_manager_3_asan", [] { return std::unique_ptr<mc::Model>(new TimerModel(3)); }, o);
    mc::add_bfs("two_managers_2_timers_asan", [] { return std::unique_ptr<mc::Model>(new TwoManagers); }, o);
    mc::add_bfs("timer_manager_3_uint32_asan", [] { return std::unique_ptr<mc::Model>(new TimerModelT<igris::timer_spec<uint32_t>>(3, -1, 0, 1000)); }, o);
    mc::add_bfs("stimer_histories_fixpoint_asan", [] { return std::unique_ptr<mc::Model>(new StimerModel); });
    mc::add_check("unsigned_time_across_wrap_asan", wrap_checks);
    mc::add_check("long_history_int64_asan", long_history_timers<igris::timer_spec<int64_t>>);
    mc::add_check("long_history_uint32_asan", long_history_timers<igris::timer_spec<uint32_t>>);
    mc::add_check("long_history_stimer_asan", long_history_stimer);
#else
    mc::add_check("stimer_due_rule", stimer_checks);
    mc::add_check("long_history_int64", long_history_timers<igris::timer_spec<int64_t>>);
    mc::add_check("long_history_uint32", long_history_timers<igris::timer_spec<uint32_t>>);
    mc::add_check("long_history_uint64", long_history_timers<igris::timer_spec<uint64_t>>);
    mc::add_check("long_history_int32", long_history_timers<igris::timer_spec<int32_t>>);
    mc::add_check("long_history_stimer", long_history_stimer);
    mc::add_bfs("stimer_histories_fixpoint", [] { return std::unique_ptr<mc::Model>(new StimerModel); });
    mc::add_check("stimer_due_rule_large_operands", stimer_large_checks);
    // the same histories with the clock starting just below 2^31, 2^32 and near LONG_MAX
    mc::add_bfs("stimer_histories_clock_2p31", [] { return std::unique_ptr<mc::Model>(new StimerModel((1L << 31) - 3)); });
    mc::add_bfs("stimer_histories_clock_2p32", [] { return std::unique_ptr<mc::Model>(new StimerModel((1L << 32) - 3)); });
    mc::add_bfs("stimer_histories_clock_near_max", [] { return std::unique_ptr<mc::Model>(new StimerModel(LONG_MAX - 200)); });
    o.depth_quick = C16_DEPTH_Q;
    o.depth_thorough = C16_DEPTH_T;
    mc::add_bfs("timer_manager_3", [] { return std::unique_ptr<mc::Model>(new TimerModel(3)); }, o);
    o.depth_quick = 4;
    o.depth_thorough = 5;
    mc::add_bfs("timer_manager_4", [] { return std::unique_ptr<mc::Model>(new TimerModel(4)); }, o);
    // finite universe run to FIX-POINT: 2 timers, 7 scripts, exec never beyond the time horizon;
    // covers histories of any length inside the horizon
    mc::BfsOpts f;
    f.max_states = 40000000;
    {
        mc::BfsOpts t2;
        t2.depth_quick = 5;
        t2.depth_thorough = 6;
        t2.max_states = 40000000;
        mc::add_bfs("two_managers_2_timers", [] { return std::unique_ptr<mc::Model>(new TwoManagers); }, t2);
    }
    mc::add_check("unsigned_time_across_wrap", wrap_checks);
    {
        // every other TimeSpec a user can instantiate: unsigned 32/64-bit (clock at 1000, far from the wrap point,
        // every start at or before now) and signed 32-bit; several timers, so queue ORDER is exercised there too
        mc::BfsOpts b;
        b.depth_quick = 4;
        b.depth_thorough = 4; // the deep runs are timer_manager_3/4; these repeat the alphabet in another instantiation / at another clock
        b.max_states = 40000000;
        mc::BfsOpts u = b;
        u.depth_quick = 4;
        u.depth_thorough = 5;
        mc::add_bfs("timer_manager_3_uint32", [] { return std::unique_ptr<mc::Model>(new TimerModelT<igris::timer_spec<uint32_t>>(3, -1, 0, 1000)); }, u);
        mc::add_bfs("timer_manager_3_uint64", [] { return std::unique_ptr<mc::Model>(new TimerModelT<igris::timer_spec<uint64_t>>(3, -1, 0, 1000)); }, u);
        mc::add_bfs("timer_manager_3_int32", [] { return std::unique_ptr<mc::Model>(new TimerModelT<igris::timer_spec<int32_t>>(3)); }, b);
    }
    {
        // timer_manager (int64_t) with the clock starting just below 2^31, 2^32 and near INT64_MAX: every
        // operation of the alphabet sees operands on both sides of the boundary
        mc::BfsOpts b;
        b.depth_quick = 4;
        b.depth_thorough = 4; // the deep runs are timer_manager_3/4; these repeat the alphabet in another instantiation / at another clock
        b.max_states = 40000000;
        mc::add_bfs("timer_manager_3_clock_2p31", [] { return std::unique_ptr<mc::Model>(new TimerModel(3, -1, 0, (1LL << 31) - 3)); }, b);
        mc::add_bfs("timer_manager_3_clock_2p32", [] { return std::unique_ptr<mc::Model>(new TimerModel(3, -1, 0, (1LL << 32) - 3)); }, b);
        mc::add_bfs("timer_manager_3_clock_near_max", [] { return std::unique_ptr<mc::Model>(new TimerModel(3, -1, 0, INT64_MAX - 200)); }, b);
    }
    mc::add_bfs("timer_manager_2_fixpoint",
                [] { return std::unique_ptr<mc::Model>(new TimerModel(2, mc::thorough() ? C16_HORIZON_T : C16_HORIZON_Q, (int)S_UNPLAN_O2)); }, f);
#endif
}
MC_MAIN
