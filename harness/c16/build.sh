#!/bin/bash
# two executables from the same harness TU:
#   c16      plain -O2: deep BFS (timers live in a poisoned arena, dangling links are deterministic)
#   c16asan  ASan: shallower BFS with every timer in its own exactly-sized heap block (use-after-free oracle)
set -e
. $MC/par.sh
INC="-I$REPO -I$MC"
AS="-O1 -g -fsanitize=address -fno-omit-frame-pointer"
par g++ -std=c++17 -O2 -g $INC -fno-access-control -c $VERIF/harness/c16/c16_timers.cpp -o $BUILD/h.o
par g++ -std=c++17 $AS $INC -fno-access-control -DC16_ASAN -c $VERIF/harness/c16/c16_timers.cpp -o $BUILD/ha.o
par g++ -std=c++17 -O2 -g $INC -c $REPO/igris/container/dlist.cpp -o $BUILD/dlist.o
par g++ -std=c++17 $AS $INC -c $REPO/igris/container/dlist.cpp -o $BUILD/dlista.o
par gcc -O2 -g $INC -c $REPO/igris/datastruct/stimer.c -o $BUILD/stimer.o
par g++ -std=c++17 -O2 -c -I$MC $MC/mc.cpp -o $BUILD/mc.o
parwait
par g++ $BUILD/h.o $BUILD/dlist.o $BUILD/stimer.o $BUILD/mc.o -o $BUILD/c16
par g++ -fsanitize=address $BUILD/ha.o $BUILD/dlista.o $BUILD/stimer.o $BUILD/mc.o -o $BUILD/c16asan
parwait
echo "timers_asan $BUILD/c16asan" > $BUILD/runs.txt
echo "timers $BUILD/c16" >> $BUILD/runs.txt
