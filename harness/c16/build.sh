#!/bin/bash
# two executables from the same harness TU:
#   c16      plain -O2: deep BFS (timers live in a poisoned arena, dangling links are deterministic)
#   c16asan  clang++ -O2 -DNDEBUG under ASan: shallower BFS with every timer in its own exactly-sized heap block (use-after-free oracle)
# The state key and one oracle read private members of timer_manager.h by name.  If that does not compile
# (the names were refactored) the harness is rebuilt with -DC16_PUBLIC_ONLY: public API only, key = reference
# state (+) every public observer.
set -e
. $MC/par.sh
INC="-I$REPO -I$MC"
# variant build: the OTHER compiler, optimised, assertions compiled out (an assert with a side effect vanishes)
AS="-O2 -g -fsanitize=address -fno-omit-frame-pointer -DNDEBUG"
H=$VERIF/harness/c16/c16_timers.cpp
par g++ -std=c++20 -O2 -g $INC -c $REPO/igris/container/dlist.cpp -o $BUILD/dlist.o
par clang++ -std=c++20 $AS $INC -c $REPO/igris/container/dlist.cpp -o $BUILD/dlista.o
par clang $AS $INC -c $REPO/igris/datastruct/stimer.c -o $BUILD/stimera.o
par gcc -O2 -g $INC -c $REPO/igris/datastruct/stimer.c -o $BUILD/stimer.o
par g++ -std=c++20 -O2 -c -I$MC $MC/mc.cpp -o $BUILD/mc.o
( g++ -std=c++20 -O2 -g $INC -fno-access-control -c $H -o $BUILD/h.o 2>$BUILD/h.err ) &
P1=$!
( clang++ -std=c++20 $AS $INC -fno-access-control -DC16_ASAN -c $H -o $BUILD/ha.o 2>$BUILD/ha.err ) &
P2=$!
FULL=1
wait $P1 || FULL=0
wait $P2 || FULL=0
if [ $FULL = 0 ]; then
  # no -fno-access-control here: this build must compile against the public interface alone
  par g++ -std=c++20 -O2 -g $INC -DC16_PUBLIC_ONLY -c $H -o $BUILD/h.o
  par clang++ -std=c++20 $AS $INC -DC16_PUBLIC_ONLY -DC16_ASAN -c $H -o $BUILD/ha.o
  if ! parwait; then cat $BUILD/h.err $BUILD/ha.err; exit 1; fi
  echo "NOTE: private state names changed, key built from public observers only" | tee $BUILD/notes.txt
else
  cat $BUILD/h.err $BUILD/ha.err
  parwait
fi
par g++ $BUILD/h.o $BUILD/dlist.o $BUILD/stimer.o $BUILD/mc.o -o $BUILD/c16
par clang++ -fsanitize=address $BUILD/ha.o $BUILD/dlista.o $BUILD/stimera.o $BUILD/mc.o -o $BUILD/c16asan
parwait
echo "timers_asan $BUILD/c16asan" > $BUILD/runs.txt
echo "timers $BUILD/c16" >> $BUILD/runs.txt
